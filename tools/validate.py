#!/usr/bin/env python3
"""Validates MANIFEST.json and evidence/*.json against the schemas (run with python3-vt)."""
import glob, json, sys
import jsonschema
ok = True
ms = json.load(open('/root/.vp/MANIFEST.schema.json'))
es = json.load(open('/root/.vp/EVIDENCE.schema.json'))
try:
  jsonschema.validate(json.load(open('MANIFEST.json')), ms)
  print('MANIFEST ok')
except Exception as e:
  ok = False; print('MANIFEST INVALID', e)
for p in sorted(glob.glob('evidence/*.json')):
  try:
    jsonschema.validate(json.load(open(p)), es); print(p, 'ok')
  except Exception as e:
    ok = False; print(p, 'INVALID', str(e)[:300])
sys.exit(0 if ok else 1)
