#!/usr/bin/env python3
"""Runs the repository's pinned test suite in <dir> and checks that every test
listed as stable_pass in /root/.vp/BASELINE.json still passes.
usage: baseline.py <repo_dir>     exit 0 = all 319 stable tests pass."""
import json, os, subprocess, sys, tempfile
import xml.etree.ElementTree as ET
d = os.path.abspath(sys.argv[1] if len(sys.argv) > 1 else '/repo')
base = json.load(open('/root/.vp/BASELINE.json'))
want = set(base['stable_pass'])
fd, xml = tempfile.mkstemp(suffix='.xml'); os.close(fd)
env = dict(os.environ, PYTHONPATH=d, PYTHONDONTWRITEBYTECODE='1')
env.pop('MALT_VERIF', None)
p = subprocess.run(['/venv/bin/python', '-m', 'pytest', '-q', '-p', 'no:cacheprovider', '--timeout=900',
                    '--continue-on-collection-errors', '--junitxml=' + xml], cwd=d, env=env,
                   stdout=subprocess.PIPE, stderr=subprocess.STDOUT)
passed = set()
for tc in ET.parse(xml).getroot().iter('testcase'):
  if not any(ch.tag in ('failure', 'error', 'skipped') for ch in tc):
    passed.add('%s::%s' % (tc.get('classname'), tc.get('name')))
os.unlink(xml)
missing = sorted(want - passed)
print('stable tests: %d, passing now: %d, missing: %d' % (len(want), len(want & passed), len(missing)))
for m in missing[:40]:
  print('  NOT PASSING:', m)
sys.exit(1 if missing else 0)
