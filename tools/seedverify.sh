#!/bin/bash
# usage: seedverify.sh C01 a   -- confirms a sub-agent's seeded change in its scratch worktree and stores it under seeded/
# optional 3rd argument: name under which it is stored (default: same as X); SEEDROOT (default /tmp/seed) = agents' root
ID=$1; X=$2; NAME=${3:-$2}
SEEDROOT=${SEEDROOT:-/tmp/seed}
WT=$SEEDROOT/wt_$ID; OUT=$SEEDROOT/out_$ID
cd $WT || exit 2
git checkout -q -- . ; git clean -fdq
git apply $OUT/patch_$X.diff || { echo "PATCH DOES NOT APPLY"; exit 2; }
python3 /verif/tools/baseline.py $WT | head -3; B=$?
PYTHONPATH=$WT timeout 600 /venv/bin/python $OUT/demo_$X.py > $SEEDROOT/demo_with.log 2>&1; W=$?
git checkout -q -- . ; git clean -fdq
PYTHONPATH=$WT timeout 600 /venv/bin/python $OUT/demo_$X.py > $SEEDROOT/demo_without.log 2>&1; WO=$?
# also on the current /repo (with fix: commits)
PYTHONPATH=/repo timeout 600 /venv/bin/python $OUT/demo_$X.py > $SEEDROOT/demo_repo.log 2>&1; R=$?
echo "$ID/$X: demo with patch exit=$W (want 1), without exit=$WO (want 0), on /repo HEAD exit=$R (want 0)"
if [ $W = 1 ] && [ $WO = 0 ]; then
  D=/verif/seeded/${ID}_$NAME; mkdir -p $D
  cp $OUT/patch_$X.diff $D/patch.diff; cp $OUT/demo_$X.py $D/demo.py
  python3 - "$ID" "$X" "$OUT" "$D" "$R" "$NAME" <<'PY'
import json,sys
id,x,out,d,r,name=sys.argv[1:]
m=json.load(open(out+'/meta.json'))
ch=[c for c in m['changes'] if c['name']==x][0]
json.dump({'property':id,'name':name,'summary':ch.get('summary'),'needs':ch.get('needs'),
 'agent_ran':ch.get('ran'),
 'confirmed':'tools/seedverify.sh %s %s: patch applies to the commit of its scratch worktree; tools/baseline.py reports all 319 pinned tests passing with it; demo.py exits 1 (FAIL) with the patch and 0 (PASS) without; demo on /repo HEAD exit=%s'%(id,x,r)},open(d+'/meta.json','w'),indent=1)
PY
  echo stored $D
fi
