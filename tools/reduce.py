#!/usr/bin/env python
"""dev tool: further delta-debug a C01-style replay witness. usage: reduce.py replay.json [budget_s]"""
import sys, json, os, tempfile
sys.path.insert(0, os.path.dirname(os.path.dirname(os.path.abspath(__file__))))
d = tempfile.mkdtemp(prefix='red', dir='/verif/.work'); os.environ['VERIF_SCRATCH'] = d; os.environ['TMPDIR'] = d
import logging; logging.getLogger().addHandler(logging.NullHandler())
from vf import stream
r = json.load(open(sys.argv[1])); w = r['witness']
budget = float(sys.argv[2]) if len(sys.argv) > 2 else 300
first = stream.diff_case(w['src'], w['inputs'], w['mode'], w['feats'])
print('initial:', first['verdict'], (first['detail'] or '')[:300])
inputs = [first['input']] if first.get('input') else w['inputs']
def still(text):
  rr = stream.diff_case(text, inputs, w['mode'], w['feats'])
  return rr['verdict'] == 'violation' and rr['conversion_error'] == first['conversion_error']
src = stream.reduce_source(w['src'], still, budget)
rr = stream.diff_case(src, inputs, w['mode'], w['feats'])
print(rr['detail']); print(stream.body_of(src)); print(inputs, w['mode'], w['feats'])
json.dump({'witness': {'src': src, 'inputs': inputs, 'mode': w['mode'], 'feats': w['feats']}}, open(sys.argv[1] + '.reduced', 'w'))
import shutil; shutil.rmtree(d, ignore_errors=True)
