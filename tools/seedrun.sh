#!/bin/bash
# usage: seedrun.sh <seeded dir name> <CHECK ID> [tier]  -- applies the seeded patch to /repo, runs the check, reverts.
S=$1; ID=$2; TIER=${3:-quick}
mkdir -p /tmp/seed
cd /repo || exit 2
if ! git diff --quiet; then echo "/repo dirty"; exit 2; fi
git apply /verif/seeded/$S/patch.diff 2>/dev/null || git apply --3way /verif/seeded/$S/patch.diff 2>/dev/null || { echo "$S: PATCH DOES NOT APPLY to current /repo"; git reset -q --hard HEAD; exit 3; }
cd /verif
timeout ${SEED_TIMEOUT:-1500} ./check $ID --tier $TIER > /tmp/seed/run_${S}_$ID.log 2>&1; RC=$?
cd /repo && git reset -q --hard HEAD
echo "$S vs $ID ($TIER): exit=$RC $(grep -c '^VIOLATION' /tmp/seed/run_${S}_$ID.log) violation lines; $(grep '^'$ID' tier' /tmp/seed/run_${S}_$ID.log | cut -c1-160)"
