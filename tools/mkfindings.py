#!/usr/bin/env python3
"""Builds known_findings.json from the table below (kept under version control; never written at run time)."""
import json, os, sys
ROOT = os.path.dirname(os.path.dirname(os.path.abspath(__file__)))
sys.path.insert(0, ROOT)
from vf.gen.grammar import PREAMBLE
from vf.gen.typed import HEADER as TY_HEADER

def c01(body, inputs, mode='to_graph', feats=()):
  return {'src': PREAMBLE + body, 'inputs': inputs, 'mode': mode, 'feats': list(feats)}

A = '(1, 2, 1, [1, 0], Obj(0, 0), {"k": 3, "m": 2})'
E = '(1, 2, 1, [], Obj(0, 0), {"k": 3, "m": 2})'
B = '(0, 2, 1, [4, 2, 3], Obj(0, 0), {"k": 3, "m": 2})'

def c17(body, inputs, feats=(), recursive=True):
  return {'src': PREAMBLE + body, 'inputs': inputs, 'feats': list(feats), 'recursive': recursive}

FIXED = [
 ('C01', 'except-as-name-conversion-fails', 'a209f14',
  "any function containing 'except E as name:' failed to convert (AttributeError: 'str' object has no attribute '_fields')",
  c01('''def f(a, b, c, xs, o, d):
    v0 = 0
    try:
        if a > 0:
            v0 = 5
            raise E1('x')
        v0 = 2
    except E1 as ex1:
        v0 = v0 + len(str(ex1))
    return (v0,)
''', [A, B])),
 ('C01', 'augassign-operand-not-loaded', '8a6c4cf',
  "'v += i' with unbound i raised TypeError (int + Undefined) instead of a NameError",
  c01('''def f(a, b, c, xs, o, d):
    v2 = c
    for i16 in xs:
        pass
    v2 += ((a + i16) % 5)
    return (v2,)
''', [E, A])),
 ('C01', 'del-unbound-does-not-raise', '875caf2',
  "'del x' of an unbound name was silently accepted in converted code",
  c01('''def f(a, b, c, xs, o, d):
    v0 = 1
    if a > 0:
        del v0
    del v0
    return (a,)
''', [A, B])),
 ('C01', 'for-target-killed-on-loop-exit', '7132659',
  "value assigned to a for-loop target variable lost after the loop when an enclosing for header re-binds it (liveness killed targets on exit edges): returned 0 instead of xs[-1]",
  c01('''def f(a, b, c, xs, o, d):
    for v1 in range(1):
        for v1 in xs:
            pass
    v2 = 0
    for v2 in xs:
        if a > 0:
            continue
        v2 = -2
    return (v1, v2)
''', [A, B, E])),
 ('C01', 'nonlocal-closure-variable-not-live', '5a25c5e',
  "assignment in an if body to a variable that a nested function declares nonlocal was dropped (f(1) gave 1 instead of 6)",
  c01('''def f(a, b, c, xs, o, d):
    v0 = 0
    def fn1(p1):
        nonlocal v0
        v0 += 1
        return v0
    if a > 0:
        v0 = 5
    return (fn1(0),)
''', [A, B])),
 ('C01', 'global-write-in-body-lost', '0f6aa8a',
  "'global G' variable assigned inside an if/loop body and not read later was made local to the generated body function; module global not updated",
  c01('''def f(a, b, c, xs, o, d):
    global G1
    for v0 in xs:
        G1 = v0 + 100
    if a > 0:
        G1 = G1 + 1000
    return (a,)
''', [A, B, E])),
 ('C01', 'try-else-if-cfg-assertion', '6b9f5da',
  "try/except/else whose else block starts with an if statement failed to convert (AssertionError in cfg enter_cond_section)",
  c01('''def f(a, b, c, xs, o, d):
    v0 = 0
    try:
        v0 = 1
    except E1:
        v0 = 2
    else:
        if a > 0:
            v0 = 3
    return (v0,)
''', [A, B])),
 ('C01', 'try-else-runs-after-lowered-jump', '71d2772',
  "else clause of a try statement still executed after a return/continue/break lowered inside the try body",
  c01('''def f(a, b, c, xs, o, d):
    v0 = []
    for i1 in xs:
        try:
            if i1 == 2:
                continue
            if i1 == 3:
                break
        except E1:
            pass
        else:
            T('else', i1)
    try:
        if a > 0:
            return (1,)
    except E1:
        pass
    else:
        T('else2', a)
        def fn3(p3):
            return p3 + a
        T('else3', fn3(1))
    return (2,)
''', [A, B])),
 ('C03', 'global-nonlocal-state-after-nouts', 'de9f3ca',
  "global/nonlocal variable modified in a conditional and not read again in the function was placed after nouts (if c: G = G + 1 -> ('G',), nouts 0)",
  dict(c01('''def f(a, b, c, xs, o, d):
    global G1
    v0 = a
    if a > 0:
        G1 = G1 + 1
        v0 = G1
    return (v0,)
''', [A, B]), meta=None)),
 ('C03', 'get-state-raises-indexerror', '94172ff',
  "get_state() raised IndexError for a subscript state variable on an empty sequence (ldu did not map IndexError to Undefined)",
  dict(c01('''def f(a, b, c, xs, o, d):
    v0 = a
    if len(xs) > 0:
        xs[0] = a + 1
        v0 = 3
    return (v0,)
''', [E, A]), meta=None)),
 ('C17', 'walrus-target-ctx-load', 'a442a11',
  "target of an assignment expression inside a call argument got ctx Load; generated 'ag__.ld(n) := ...' failed to load (SyntaxError)",
  c17('''def f(a, b, c, xs, o, d):
    v0 = T('u1', (n1 := a + 1) + n1)
    if (n2 := b) > 0:
        v0 = v0 + n2
    return (v0,)
''', [A, B])),
 ('C11', 'write-only-user-name-collides', 'c09e7c8',
  "user names that are only assigned / belong to another scope (break_ = 7, do_return, fscope, get_state_1 ...) were handed out again by the Namer (reserved set = names read)",
  c01('''def f(a, b, c, xs, o, d):
    break_ = 7
    do_return = 3
    fscope = 5
    get_state = 1
    r = 0
    for i in xs:
        if i > a:
            continue
        if i < 0:
            break
        r += i
    if a > 0:
        return (r, 1)
    return (r, b if a else c)
''', [A, B])),
 ('C11', 'vars-setter-parameter-collides', '3637daa',
  "a state variable named vars_ made the generated setter fail to load (name is parameter and nonlocal)",
  c01('''def f(a, b, c, xs, o, d):
    vars_ = 0
    for i in xs:
        if i > a:
            vars_ = vars_ + i
            continue
        vars_ += 1
    return (vars_,)
''', [A, B])),
 ('C09', 'placeholder-defaults-kept-on-equal-code-cache-hit', '787db76',
  "function without defaults that hit the cache entry of an equal-code function with defaults kept None placeholder defaults (f(a0, *, k0) became f(a0=None, *, k0=None))",
  {'seed': 'C09/0/1/21', 'twin': True}),
 ('C15', 'textual-continuation-unfolding', '0a7771a',
  "dedent_block removed backslash-newline textually: a comment ending in a backslash swallowed the next statement / def line, strings with an escaped backslash before a newline were altered",
  {'seed': 'C15/0/4/0', 'tabs': True, 'features': ['comment_bs', 'triple_bs_end', 'raw_triple_bs', 'comment_bs_then_str', 'continuation', 'str_bs_nl', 'bytes_indented']}),
 ('C14', 'enumerate-iterable-keyword-rejected', '6b35fe4',
  "enumerate(iterable=xs) raised TypeError in the overload (first parameter named s)",
  {'kind': 'shape', 'bname': 'enumerate', 'label': 'enumerate(iterable=x, start=n)', 'vc': 'list'}),
 ('C14', 'eval-locals-innermost-frame-only', 'fe9348e',
  "eval()/locals() inside a functionalised loop/branch body only saw the names that body mentions (NameError / missing keys)",
  {'kind': 'frame', 'fname': 'f_eval', 'mode': 'to_graph'}),
 ('C14', 'eval-explicit-globals-gets-frame-locals', 'f22154d',
  "eval('q', {'q': 5}) returned the caller's local q: frame locals were injected although only globals were given",
  {'kind': 'frame', 'fname': 'f_eval_explicit', 'mode': 'to_graph'}),
 ('C18', 'slice-named-as-value', '68d16f7',
  "x[a():b()] and x[a:b, c] were rewritten into 'tmp = a():b()' (ast.Slice no longer an ast.slice): output did not compile",
  {'body': '''def f(a, b, c):
    r = L('t1')[T('t2', a):T('t3', b)]
    n = L('t4')[T('t5', a):T('t6', 1):T('t7', b), T('t8', c)]
    return (0, 0, 0)
'''}),
 ('C10', 'cache-entry-vanishes-between-has-and-read', '2dc1cd0',
  "KeyError out of to_graph/converted_call: lock-free has() saw an entry that the garbage collector removed before the read (schedule dependent; found under 16-32 threads with a gc churn thread)",
  None),
 ('C10', 'cache-keyed-by-code-equality', '9c09b88',
  "cache keyed by code-object equality: entry of a live function filed under an equal code object of an unloaded module disappeared with it; source transformation ran twice for one (code object, options) pair",
  None),
 ('C05', 'jump-in-except-clause-skips-finally', '3ec3229',
  "return/break/continue inside an except clause was not routed through the try's finally block (executed path return -> finally body had no CFG edge)",
  {'src': PREAMBLE + '''def f(a, b, c, xs, o, d):
    v0 = a
    for i1 in range(2):
        try:
            if a > 0:
                raise E1('x')
            v0 = v0 + 1
        except E1:
            if i1 > 0:
                break
            v0 = v0 + 2
            continue
        finally:
            v0 = v0 + 10
    try:
        raise E3('sub')
    except E1:
        return (v0, 1)
    finally:
        T('fin', v0)
    return (v0,)
''', 'inputs': [A, B], 'fnames': ['f']}),
 ('C06', 'for-target-definitions-killed-on-loop-exit', 'ef8c4be',
  "after a possibly zero-trip for loop, the read of the target variable lacked the definition made before the loop (header killed target definitions on the exit edge)",
  {'src': PREAMBLE + '''def f(a, b, c, xs, o, d):
    v0 = 0
    v2 = c
    for v0 in xs:
        pass
    for v2, i5 in enumerate(xs):
        pass
    return (v2, v0)
''', 'inputs': [E, A], 'fnames': ['f']}),
 ('C04', 'nested-conditional-expression-native', '97e2f5a',
  "a conditional expression nested in the test or a branch of another one stayed native (visit_IfExp did not visit children)",
  'C04MATRIX'),
 ('C08', 'nested-function-parameters-bound-in-defining-scope', 'ce79a1b',
  "parameters of a nested def or lambda were also listed as bound (and as parameters) in the scope that defines it: visit_arg ran for the defining scope during the annotations-only pass",
  {'kind': 'static', 'src': '''def fn1(p, q=1):
    def fn2(x, *va, ko=p, **kw):
        return x + ko
    a = lambda lp, lq=q: lp + lq
    return fn2(a(p))
'''}),
 ('C08', 'nonlocal-name-not-free-in-intermediate-function', 'b6b962b',
  "a name declared nonlocal two levels below its owner was not a free variable (read - bound) of the function in between; CPython lists it among that function's free variables",
  {'kind': 'static', 'src': '''def fn1(p):
    def fn2():
        def fn3():
            nonlocal p
            p = 2
        return fn3
    return fn2
'''}),
 ('C19', 'stale-annotation-after-operand-becomes-unknown', '852654d',
  "an expression kept the TYPES annotation of the first pass of the fixed-point iteration after a later pass found an operand unknown (bool + float annotated {float}, evaluated to int)",
  {'src': TY_HEADER + '''
def f(a, b, x, s, flag, xs, tp, n):
    def g1(p):
        return p
    v3 = flag
    v4 = x
    for i1 in [1, 2]:
        v0 = (v3 + v4)
        v3 = g1(1)
        v4 = 1
    return (v3,)
''', 'mode': 'hostile'}),
 ('C19', 'nonlocal-entry-types-missing', '2be8705',
  "in a local function, a name declared nonlocal and rebound on one path only was annotated with the new type alone after the join; the entry state skipped the types recorded by the enclosing function",
  {'src': TY_HEADER + '''
def f(a, b, x, s, flag, xs, tp, n):
    v2 = 1.5
    def g1(p):
        nonlocal v2
        if p > 1:
            v2 = 7
        w0 = v2
        return w0
    u0 = g1(0)
    return (u0, v2)
''', 'mode': 'hostile'}),
 ('C19', 'tuple-display-stops-at-first-unknown-element', '6f3fdc4',
  "visit_Tuple returned at the first element of unknown type; the remaining elements were not visited on that pass and kept the annotations of an earlier pass",
  {'src': TY_HEADER + '''
def f(a, b, x, s, flag, xs, tp, n):
    v0 = b
    v1 = xs
    def g1(p):
        return p
    if flag:
        v1 = 1
        v0 = g1(a)
    u1 = (1 - v0)
    return (u1, v1)
''', 'mode': 'hostile'}),
 ('C19', 'unpacking-targets-keep-annotation-of-earlier-pass', 'cd75b77',
  "the targets of a tuple unpacking kept the TYPES annotation of an earlier pass of the fixed-point iteration when the unpacked value became unknown on a later pass (_apply_unpacking did not visit them)",
  {'src': TY_HEADER + '''
def f(a, b, x, s, flag, xs, tp, n):
    def g1(p):
        return p
    v0 = x
    for i1 in [1, 2]:
        v0, v3 = ((v0 // 2), 1)
        v0 = g1(1)
    return (v3,)
''', 'mode': 'hostile'}),
 ('C01', 'chained-comparison-middle-operand-evaluated-twice', 'f91d406',
  "a < f() < c was rewritten to and_(lambda: a < f(), lambda: f() < c): the operand shared by two comparisons was evaluated twice (side effects doubled)",
  c01('''def f(a, b, c, xs, o, d):
    v0 = 0
    if a < T('m', b) <= c + 2:
        v0 = 1
    v1 = a < T('n', b) < T('k', c) != 7
    return (v0, v1)
''', [A, B])),
 ('C19', 'binding-of-unknown-type-keeps-previous-type', '261dc6a',
  "a binding whose type the inference does not know (aug-assignment, for-loop target, assignment or unpacking of a value the resolver reports as unknown) left the entry the symbol had before in the type map: later reads were annotated with the type of an older binding, and at joins an untyped binding on one path was outvoted by a typed one on another",
  {'src': TY_HEADER + '''
def f(a, b, x, s, flag, xs, tp, n):
    v0 = 1
    v0 += 0.5
    v1 = 'a'
    for v1 in [1, 2]:
        u0 = v1
    v2 = 1
    v2 = ext_u('q')
    if flag:
        v3 = ext_u(1.5)
    else:
        v3 = 'z'
    return (v0, v1, v2, v3)
''', 'mode': 'hostile'}),
 ('C19', 'rebinding-by-local-function-not-applied-to-caller', 'd2b47e3',
  "after a call of a local function that rebinds a variable of the enclosing function through nonlocal with another type, the enclosing function still annotated reads with the old type and the CLOSURE_TYPES recorded for later calls lacked the new one (side effects were only taken from Resolver.res_call, i.e. for external functions)",
  {'src': TY_HEADER + '''
def f(a, b, x, s, flag, xs, tp, n):
    v0 = 1
    v1 = 2
    def g1(p):
        nonlocal v0
        v0 = 'a'
        return p
    def g2(p):
        u2 = g1(p)
        def g3(q):
            nonlocal v1
            v1 = 0.5
            return q
        return g3(p)
    u0 = g1(1)
    g1(2)
    w = v0
    u1 = g2(3)
    return (v0, v1, u0, u1, w)
''', 'mode': 'hostile'}),
 ('C19', 'callee-analysed-before-its-local-callers', 'b5ea8fa',
  "local functions were analysed once in definition order: a local function called from another local function defined after it kept, for its reads of captured variables, only the types seen at its direct call sites",
  {'src': TY_HEADER + '''
def f(a, b, x, s, flag, xs, tp, n):
    v2 = a
    def g1(p: int):
        w0 = ext_s(v2)
        return w0
    def g2(p: int):
        u2 = g1(1)
        return u2
    g2(n)
    if flag:
        u0, v2 = tp
        v1 = g1(2)
    return (v2,)
''', 'mode': 'hostile'}),
 ('C02', 'state-getter-reads-unbound-body-local', '4feab6d',
  "a variable that is dead on entry to and exit from a generated conditional (the code after a loop with a lowered return) is a fresh local of the generated body function; a nested statement that carries it in its state read it unbound in get_state (NameError under a backend that calls get_state on entry)",
  {'src': PREAMBLE + '''def f(a, b, c, xs, o, d):
    v4 = 1
    for i1 in xs:
        return (a,)
    if a < 5:
        v4 = a + 1
    else:
        v4 = a - 1
    v4 *= 2
''', 'inputs': ['(1, 2, 1, [1, 0], Obj(0, 0), {"k": 3, "m": 2, "k.m": 0, "k[0]": 0})', '(1, 2, 1, [], Obj(0, 0), {"k": 3, "m": 2, "k.m": 0, "k[0]": 0})']}),
]

OPEN = [
 {'property': 'C01', 'key': 'lambda-called-later-closure-not-live', 'status': 'open',
  'what': "a lambda that reads a variable of the enclosing function and is called after the statement that defines it: liveness "
          "deliberately ignores lambdas as closures (liveness.py lamba_check: 'assumed to be used only in the place where they are "
          "defined'), so a variable that is assigned inside a later loop or conditional and read only through the lambda is not carried "
          "out of that statement; the call then raises NameError (or sees a stale value) where the original succeeds. Not repaired: "
          "counting lambdas like nested defs fails the pinned test liveness_test.test_live_out_lambda, which asserts the exception "
          "(with a TODO to lift it). The check attributes a divergence to this finding only if it disappears when the differential "
          "run is repeated with the exception switched off in the running interpreter.",
  'witness': c01('''def f(a, b, c, xs, o, d):
    lam1 = lambda q1: q1 + v5
    for i2 in range(2):
        if i2 >= 0:
            v5 = i2
    return (lam1(a),)
''', [A, B])},
 {'property': 'C06', 'key': 'definitions-do-not-cross-function-boundaries', 'status': 'open',
  'what': "definitions do not flow between a function and the functions nested in it: a read of an enclosing variable inside a nested "
          "function has an empty DEFINITIONS annotation, and a rebinding made by a nested function through nonlocal is not among the "
          "definitions of later reads in the enclosing function. Each function is analysed by its own Analyzer, although the "
          "TreeAnnotator docstring promises to account for closures. Not repaired: a sound repair has to propagate every definition of the symbol in "
          "the enclosing function (the nested function may be called at any later point), which changes what the directives converter "
          "sees as 'defined' names and is more than a small local patch. A prototype of that repair (all definitions of the owner and of "
          "the local functions that declare the name nonlocal) also fails the pinned tests reaching_definitions_test.test_nested_functions "
          "and test_nonlocal_in_nested_function, which assert that a closure read has no definitions ('late binding').",
  'witness': {'src': PREAMBLE + '''def f(a, b, c, xs, o, d):
    v0 = a + 1
    def fn1(p1):
        nonlocal v0
        v0 = v0 + p1 + b
        return v0
    v1 = fn1(2)
    return (v1, v0)
''', 'inputs': [A], 'fnames': ['f']}},
 {'property': 'C18', 'key': 'anf-hoisting-not-in-evaluation-order', 'status': 'open',
  'what': "ANF names the sub-expressions of all children before the children themselves (generic_visit, then _ensure_fields_in_anf), so "
          "sub-expressions of a later sibling are computed before an earlier sibling: F(F(x), F(y, F(z))) computes F(z) before F(x); dict "
          "displays evaluate all keys before all values; store-target sub-expressions run before the assigned value. Same events, different "
          "order. Not repaired: the pinned tests anf_test.test_function_call_and_expr, test_tuple_literal_and_unary and "
          "test_deeply_nested_multi_value_assign assert the out-of-order temporaries, so an evaluation-order traversal fails the unedited suite.",
  'witness': {'body': '''def f(a, b, c):
    r = F(F(T('t1', a)), F(T('t2', b), F(T('t3', c))))
    n = {T('k1', 1): T('v1', a), T('k2', 2): T('v2', b)}
    L('o')[T('t4', a)] = T('t5', b)
    return (r, n, 0)
'''}},
]

def main():
  out = []
  for prop, key, commit, what, wit in FIXED:
    if wit == 'C04MATRIX':
      from vf.props import c04
      wit = {'src': c04.header() + c04.matrix_program('r = T("res", (b if a > 0 else (c if b > 0 else a)))\nr = (b if (c if a > 0 else b) > 0 else a)'),
             'mode': 'to_graph', 'feats': []}
    ent = {'property': prop, 'key': key, 'status': 'fixed', 'commit': commit, 'what': what,
           'line': 'fixed: property=%s %s %s' % (prop, commit, what)}
    if wit is not None:
      ent['witness'] = wit
    out.append(ent)
  for e in OPEN:
    out.append(e)
  json.dump({'findings': out}, open(os.path.join(ROOT, 'known_findings.json'), 'w'), indent=1)
  print('wrote %d entries' % len(out))
main()
