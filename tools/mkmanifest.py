#!/usr/bin/env python3
"""Regenerates MANIFEST.json from the table below (keeps it schema-valid)."""
import json
import os

ROOT = os.path.dirname(os.path.dirname(os.path.abspath(__file__)))

# id -> (category, technique, text, note, design_ref)
CHECKS = {
    'C01': ('exploration',
            'differential execution against CPython (dual module instances) over generated programs and enumerated skeletons',
            'Generated programs covering the quantifier (random grammar stream + bounded-exhaustive control-flow skeletons with '
            'every decision vector) are converted by the real transpiler through every entry point and run next to the '
            'unconverted function in a second instance of the same module; return value, ordered side-effect log, post-state '
            'of arguments/globals/closure cells and escaping exception class are compared. Conversion failures, including those '
            'masked by the call wrapper fallback, are violations. Violations are delta-debugged to a small witness.',
            'CPython is the reference; coverage is bounded by the grammar (nesting <= 4, ~26 statements, ints/lists/one object/one dict). '
            'Holds on the programs executed, not beyond.',
            'DESIGN.md 3/C01'),
    'C02': ('exploration',
            'tracing-style operator backend injected into the real ag__ module; differential against native execution',
            'The real converted function runs with if_stmt/while_stmt/for_stmt replaced by a backend that touches variables only '
            'through get_state/set_state: both branches traced from the same state, non-outputs poisoned, loop bodies traced once '
            'out of band (also for zero-trip loops) and the carried state re-injected before every test and body. The result is '
            'compared with the unconverted function. All skeletons over {if, if/else, while, for} x {break, continue, return} with '
            'every decision vector plus random pure programs.',
            'Programs are pure and total by construction (checked: originals that raise are not judged); every variable, including '
            'loop counters, exists before the control-flow statement that assigns it (documented staging limitation).',
            'DESIGN.md 3/C02'),
    'C03': ('exploration',
            'contract monitor wrapped around the real ag__ operators, judging every dynamic invocation',
            'Every if_stmt/while_stmt/for_stmt/if_exp/and_/or_/not_ call made by real generated code is intercepted: name/getter/'
            'setter length and position-wise denotation (names evaluated in the calling frame), idempotent reads, write-back '
            'neutrality, sentinel write-then-read, callback arities, nouts bounds plus poisoning of entries beyond nouts, loop '
            'options against the directives the generator placed. Then the real operator runs.',
            'Trusts frame evaluation of names (eval in f_globals/f_locals of the generated frame). Sentinel probe skipped when a composite entry is Undefined.',
            'DESIGN.md 3/C03'),
    'C04': ('exploration',
            'static scan of every emitted module + tracer values that attribute truth/iteration/call requests to frames',
            'Every module text the real converter hands to the loader is parsed and scanned for surviving native if/while/for/'
            'break/continue/early return/and/or/not/conditional expression/chained comparison/call outside the documented contexts; '
            'programs run on tracer values whose __bool__/__iter__ and a tracer callee record the requesting frame (generated module '
            'vs malt operator) with the instruction position mapped back to the generated AST. Construct x context matrix enumerated; '
            'random C01-class programs on tracer inputs.',
            'Frames are attributed by file name; exempt contexts are those the documentation lists plus assert and `in` tests (not overloadable).',
            'DESIGN.md 3/C04'),
    'C05': ('exploration',
            'probe twin: interpreter execution order of CFG nodes checked against cfg.build of the same tree; structural checks with lexical ownership',
            'cfg.build runs on the very tree whose instrumented copy (probe at every CFG node: statements, tests, loop headers via an '
            'iterator wrapper, with-items, function entry) is executed by CPython; every invocation trace must be a path from the '
            'entry to an exit/raise node through unobservable lambda nodes only; each raise must have an edge to the handler statement '
            'where execution actually resumed; structural checks: next/prev mirror, entry, reachability vs an independent dead-code '
            'model, stmt_next/stmt_prev recomputed from the node graph. Random programs (incl. loop-else, try in finally, jumps in '
            'finally), skeletons with all decision vectors, and an enumerated matrix of two nested try statements (handler kinds incl. '
            'Exception/BaseException/bare, else/finally clauses, loops around/between/inside, two jumps among raise of Exception and '
            'non-Exception classes, break, continue, return).',
            'Finally bodies executed during exceptional propagation and implicit exceptions out of calls are exempt as documented.',
            'DESIGN.md 3/C05'),
    'C06': ('exploration',
            'probe twin with a last-writer shadow environment; locals() snapshots; fixed-point check on recorded Analyzer objects',
            'The real analyses annotate the tree whose instrumented copy is executed: every Name load reports which binding '
            'occurrence last wrote the variable (per-invocation shadow environments chained through closures), and the Definition '
            'attached to that binding must be among DEFINITIONS of the read; locals() at every if/for/while/try entry must be within '
            'DEFINED_VARS_IN; every recorded reaching-definitions Analyzer must satisfy in = union of predecessor outs (loop-exit edges '
            'bounded between in and in|out of the header) and out = gen | (in - kill). One open known finding (definitions do not '
            'cross function boundaries) is classified by the binding and the read lying in different functions.',
            'Reads in lambda bodies and except-clause names are not judged (documented as untracked).',
            'DESIGN.md 3/C06'),
    'C07': ('exploration',
            'probe twin: backward use-before-overwrite pass over the ordered read/write/boundary event list, checked against the recorded liveness Analyzer',
            'Every read, binding, delete and CFG-node boundary of a twin run is logged in one global order, reads and writes being '
            'attributed to the invocation that owns the variable (also when a nested function performs them). A backward pass '
            'yields, for every executed boundary, the variables of that invocation whose current value is read later within its '
            'dynamic extent; they must be in Analyzer.in_ of the node about to run, Analyzer.out of the node that just ran and '
            'LIVE_VARS_IN/OUT of compound statements entered/left. Fixed-point equations of every recorded Analyzer are checked. '
            'Random programs, skeletons with all decision vectors (zero-trip loops) and an enumerated closure matrix.',
            'Reads after the invocation returned and boundaries passed during exceptional propagation are not judged.',
            'DESIGN.md 3/C07'),
    'C08': ('exploration',
            'differential against CPython symtable on generated scope soups, plus probe twin: every executed read/binding/delete checked against the owning statement scope',
            'Static part: generated functions exercising every binding form (nested defs, lambdas, classes, comprehensions, global and '
            'nonlocal declarations, all parameter kinds, annotations, decorators, defaults, imports, with/except/for/tuple/starred targets, '
            'attribute and subscript targets) are analysed by the real qual_names + activity passes and, for each function and lambda, '
            'parameters, bound names, declared globals, nonlocals and closure variables are compared with the symbol table CPython builds '
            'for the same source. Dynamic part: programs of profile c06 run as probe twins; every executed read, binding and delete of a '
            'simple name must be in the read / modified / deleted set of the scope of the statement (or header expression) it belongs to.',
            'Comprehension targets and except-clause names are exempt as the property states; names CPython resolves as global in the function or a descendant may additionally appear free.',
            'DESIGN.md 3/C08'),
    'C09': ('exploration',
            'interface differential against the original function object and CPython argument binding',
            'Random signatures over all five parameter kinds and closure shapes, as functions, lambdas, methods, loop-made and '
            'decorated functions: signature, identity of defaults and kw-defaults, identity of __globals__, identity of closure '
            'cells by name, rebinding visible both ways, no side effects during conversion, and 14 well/ill-formed call bindings '
            'per function compared for result or exception class. Equal-code twins and second closure instances converted back to back.',
            'inspect.signature and CPython call binding of the original are the reference.',
            'DESIGN.md 3/C09'),
    'C10': ('exploration',
            'concurrent request histories against the real cache, judged against the requesting function object; transform counter; gc churn; yield injection',
            'Histories of to_graph / convert / converted_call requests over functions sharing code objects (different cells, '
            'defaults, globals), a redefined module function and ephemeral functions collected mid-run, under 1-32 threads, three '
            'switch intervals and LINE-event yield injection in every function of transpiler.py/cache.py (half of the histories, both tiers); requests made in a DISABLED context, and for every converted_call request whether converted code ran (per-thread operator probe). Every reply is compared with '
            'the native behaviour, globals and cells of the requesting function; generated source must reflect the requested '
            'options; any exception or fallback out of the cache layer is a violation; source transformations per (code object, '
            'options) are counted by a wrapper.',
            'Watchdog expiry is inconclusive. Schedules are those a 16-core host produces; evidence lists the observed orders.',
            'DESIGN.md 3/C10'),
    'C11': ('exploration',
            'differential execution with adversarial identifiers + recorder on the real Namer.new_symbol',
            'Programs whose identifiers are the converter vocabulary in every role (random stream + 10 role templates x 45 names) '
            'are converted and run differentially; every name the real Namer hands out while function F is being converted is '
            'checked against the identifiers of F (CPython parser) and F namespace. Every name root must have been requested at least once.',
            'Identifier set taken from ast.parse of inspect.getsource(F).',
            'DESIGN.md 3/C11'),
    'C12': ('exploration',
            'differential of the rewritten exception (type, message, translated stack) against the original exception and traceback; marker-based source-map check',
            'Call chains with exactly one failing statement (16+ failure kinds incl. user classes with/without custom constructors '
            'and subclasses of listed builtins) at random position and nesting, through plain, do_not_convert and allow-listed links, '
            'are run natively and through convert(recursive=True); type rule, cause message, innermost converted frame vs the '
            'original traceback, subsequence/order of listed frames, one converted entry per converted function on the path are '
            'checked; every source-map entry whose generated line carries a line marker must point at that original line.',
            'traceback.extract_tb of the unconverted run is the reference; markers are T("L<n>") calls carried verbatim.',
            'DESIGN.md 3/C12'),
    'C13': ('fault_enumeration',
            'failpoints at every pipeline stage x exception class around the real converted_call, plus transparency/policy monitors',
            'converted_call is compared with the direct call for 38 callable kinds (incl. native callables that share a name with an overloaded builtin) x argument shapes x option sets x context '
            'statuses (result, ordered log, binding, target ran once); the conversion decision is observed through wrapped '
            'operators and compared with the documented policy table, also for sequences of calls on one callable object under changing context/options (the decision must not depend on earlier calls); a fault of each of 9 exception classes is injected at each '
            'of 23 pipeline stages (and, thorough, at sampled LINE events inside malt/ during conversion): the call must return the '
            "target's result, run it once, warn, and not attempt conversion again on an identical second call; strict mode must raise.",
            'Faults are Exception subclasses raised at stage entry or line boundaries; policy table from functions.md.',
            'DESIGN.md 3/C13'),
    'C14': ('exploration',
            'differential of each overload against the builtin with logging iterators (laziness) and captured output',
            'Every accepted call shape of the 13 substituted builtins over 10+ value classes (incl. rejected values) is executed on '
            'the builtin and on py_builtins.overload_of(builtin) with fresh copies of the arguments; result type/value, item '
            'sequence, the number of items pulled from each argument before and after every next(), stdout/file output and exception '
            'class are compared. eval/locals/globals/super() are exercised inside real converted functions at nesting 0-3, '
            'including explicit-namespace eval and the explicit-then-implicit super sequence.',
            'Call shapes the builtin rejects by signature are not compared.',
            'DESIGN.md 3/C14'),
    'C15': ('exploration',
            'differential of parser.parse_entity against ast.parse of the compiled module file, over hostile generated layouts',
            'Module files are generated with every layout feature of the quantifier; each function object found at run time '
            '(defs by unique name, lambdas by a unique _id default) is recovered through the real parse_entity and its ast.dump '
            'compared with the dump of its own node in ast.parse of the file. For lambdas an explicit '
            'UnsupportedLanguageElementError is accepted; a different lambda is a violation.',
            'ast.parse of the file is the compiled definition; the object-to-node mapping uses names/defaults only, no positions.',
            'DESIGN.md 3/C15'),
    'C16': ('exploration',
            'probe-instrumented random call trees under thread stress, checked against a sequential model of the push/pop rules',
            'Call trees of real wrappers (convert, do_not_convert, internal convert x3 statuses sharing context objects across '
            'threads and depths, unspecified-status wrapper, plain/recursively converted callees, converted lambdas) with an '
            'exception raised at any node and caught at any ancestor are run by 1-32 threads with switch intervals down to 1e-6; '
            'probes record the context object before/inside/after every call; identity after each call, status inside each node, '
            'creator thread of every observed context and final stack depth are checked.',
            'Expected statuses come from the documented rules (functions.md / API docstrings), not from the implementation.',
            'DESIGN.md 3/C16'),
    'C17': ('exploration',
            'capture of the real transform_ast output and loaded module text; checked with CPython compile/parse and a context walker',
            'For every conversion (top-level and recursively converted callees) the transformed tree is checked for shared node '
            'objects, context/position agreement, compilability, and unparse/parse round-trip identity; to_code text is compared '
            'with the text of the function in the module file actually loaded.',
            'Interpreter-wide ast singletons excluded from the sharing check; annotation fields ignored.',
            'DESIGN.md 3/C17'),
    'C18': ('exploration',
            'differential execution of the compiled anf.transform output against the original with logging operands + shape check of the output AST',
            'Functions with logging calls/objects in every operand position are transformed by the real anf.transform under the '
            'default and random edge-pattern configurations; the compiled output is run next to the original (result, ordered '
            'side-effect log, exception class); the output AST is checked against the active configuration (positions marked '
            'REPLACE hold names/literals, temporaries unique, output compiles); lazy constructs with effects must be rejected. '
            'One open known finding (hoisting order) is classified by divergence shape (same events, other order, nothing else wrong).',
            'Operand side effects only log; exemptions as documented in the transform docstring.',
            'DESIGN.md 3/C18'),
    'C19': ('exploration',
            'type-probe twin: run-time type of every evaluated expression, binding and captured variable compared with the TYPES / CLOSURE_TYPES annotations the real inference produced with a truthful resolver',
            'Generated functions of the quantified class are analysed by the real pipeline (qual_names, activity, cfg, reaching '
            'definitions, reaching function definitions, type_inference.resolve) with a resolver that answers from the real namespace, '
            'the argument types the harness passes, declared results of typed externals and the real operators applied to '
            'representatives, and None otherwise. The same tree, deep-copied and instrumented, runs under CPython on 4 inputs; each '
            'probe logs the abstract type of the value under the index of the annotated node. Every (node, observed type) pair on an '
            'annotated node and every (local function, captured variable, type at a call) triple with a CLOSURE_TYPES entry is judged.',
            'Two program classes: one without bindings of unknown static type over typed variables and without nonlocal rebinding to another type, and one with both (incl. local functions calling local functions); both findings these constructs exposed are repaired, so no violation is tolerated in either. A set containing typing.Any is read as unknown.',
            'DESIGN.md 3/C19'),
    'C20': ('exploration',
            'exhaustive enumeration of the option space with an executing-code probe',
            'All 1024 option values are built in every spelling, round-tripped through the source form the '
            'converter embeds (evaluated against the real ag__ module), compared pairwise (1M ==/hash pairs), '
            'and for the executable subset a function is converted and run under them while a probe on '
            'FunctionScope records the options the generated code actually constructs. The space is finite, so '
            'this is complete for the stated quantifier.',
            'Trusts Python tuple/frozenset equality as the reference for field equality; NAME_SCOPES/'
            'AUTO_CONTROL_DEPS/ALL are not executable (FunctionScope asserts) and are checked statically only.',
            'DESIGN.md 3/C20'),
}

PENDING = {}


def main():
  props = [json.loads(l) for l in open(os.path.join(ROOT, 'properties.jsonl'))]
  checks = []
  na = []
  for p in props:
    pid = p['id']
    if pid in CHECKS:
      cat, tech, text, note, ref = CHECKS[pid]
      checks.append({
          'property_id': pid,
          'quick_cmd': './check %s --tier quick' % pid,
          'thorough_cmd': './check %s --tier thorough' % pid,
          'evidence_file': 'evidence/%s.json' % pid,
          'replay_cmd_template': './check %s --replay {path}' % pid,
          'engine': 'vf',
          'level_claimed': {'category': cat, 'text': text, 'design_ref': ref},
          'level_note': note,
          'technique': tech,
      })
    else:
      na.append({'property_id': pid,
                 'reason': PENDING.get(pid, 'monitor designed (DESIGN.md section 3) but not yet built; not claimed until its check has run clean')})
  man = {
      'version': 1,
      'setup_cmd': 'true',
      'hooks': {
          'guard': 'MALT_VERIF',
          'enable': 'no source hooks: monitors are attached from the harness by wrapping module attributes '
                    '(api._TRANSPILER, ag__ operators, analysis classes) and sys.monitoring; ./check sets MALT_VERIF=1 for symmetry only',
          'baseline_off_cmd': 'cd /repo && /venv/bin/python -m pytest -ra -q -p no:cacheprovider --timeout=900 --continue-on-collection-errors',
          'source_commits': [],
          'add_only': True,
      },
      'engines': [{
          'name': 'vf', 'path': 'vf/',
          'serves_properties': sorted(CHECKS),
          'kind_free_text': 'runtime monitors: differential execution against CPython, operator-level contract/tracing '
                            'monitors, probe twins for the analyses, thread stress with yield injection, failpoints',
      }],
      'checks': checks,
      'not_applicable': na,
      'notes': 'See DESIGN.md. Verdicts are three-valued; exit 2 = inconclusive (never on the unchanged tree).',
  }
  with open(os.path.join(ROOT, 'MANIFEST.json'), 'w') as f:
    json.dump(man, f, indent=1)
  print('wrote MANIFEST.json: %d checks, %d not_applicable' % (len(checks), len(na)))


if __name__ == '__main__':
  main()
