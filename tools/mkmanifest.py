#!/usr/bin/env python3
"""Regenerates MANIFEST.json from the table below (keeps it schema-valid)."""
import json
import os

ROOT = os.path.dirname(os.path.dirname(os.path.abspath(__file__)))

# id -> (category, technique, text, note, design_ref)
CHECKS = {
    'C20': ('exploration',
            'exhaustive enumeration of the option space with an executing-code probe',
            'All 1024 option values are built in every spelling, round-tripped through the source form the '
            'converter embeds (evaluated against the real ag__ module), compared pairwise (1M ==/hash pairs), '
            'and for the executable subset a function is converted and run under them while a probe on '
            'FunctionScope records the options the generated code actually constructs. The space is finite, so '
            'this is complete for the stated quantifier.',
            'Trusts Python tuple/frozenset equality as the reference for field equality; NAME_SCOPES/'
            'AUTO_CONTROL_DEPS/ALL are not executable (FunctionScope asserts) and are checked statically only.',
            'DESIGN.md 3/C20'),
}

PENDING = {}


def main():
  props = [json.loads(l) for l in open(os.path.join(ROOT, 'properties.jsonl'))]
  checks = []
  na = []
  for p in props:
    pid = p['id']
    if pid in CHECKS:
      cat, tech, text, note, ref = CHECKS[pid]
      checks.append({
          'property_id': pid,
          'quick_cmd': './check %s --tier quick' % pid,
          'thorough_cmd': './check %s --tier thorough' % pid,
          'evidence_file': 'evidence/%s.json' % pid,
          'replay_cmd_template': './check %s --replay {path}' % pid,
          'engine': 'vf',
          'level_claimed': {'category': cat, 'text': text, 'design_ref': ref},
          'level_note': note,
          'technique': tech,
      })
    else:
      na.append({'property_id': pid,
                 'reason': PENDING.get(pid, 'monitor designed (DESIGN.md section 3) but not yet built; not claimed until its check has run clean')})
  man = {
      'version': 1,
      'setup_cmd': 'true',
      'hooks': {
          'guard': 'MALT_VERIF',
          'enable': 'no source hooks: monitors are attached from the harness by wrapping module attributes '
                    '(api._TRANSPILER, ag__ operators, analysis classes) and sys.monitoring; ./check sets MALT_VERIF=1 for symmetry only',
          'baseline_off_cmd': 'cd /repo && /venv/bin/python -m pytest -ra -q -p no:cacheprovider --timeout=900 --continue-on-collection-errors',
          'source_commits': [],
          'add_only': True,
      },
      'engines': [{
          'name': 'vf', 'path': 'vf/',
          'serves_properties': sorted(CHECKS),
          'kind_free_text': 'runtime monitors: differential execution against CPython, operator-level contract/tracing '
                            'monitors, probe twins for the analyses, thread stress with yield injection, failpoints',
      }],
      'checks': checks,
      'not_applicable': na,
      'notes': 'See DESIGN.md. Verdicts are three-valued; exit 2 = inconclusive (never on the unchanged tree).',
  }
  with open(os.path.join(ROOT, 'MANIFEST.json'), 'w') as f:
    json.dump(man, f, indent=1)
  print('wrote MANIFEST.json: %d checks, %d not_applicable' % (len(checks), len(na)))


if __name__ == '__main__':
  main()
