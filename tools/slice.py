#!/usr/bin/env python
"""dev tool: run one slice in-process, print brief results. usage: slice.py C01 '{"kind":...}'"""
import sys, json, os, time, importlib, tempfile
sys.path.insert(0, os.path.dirname(os.path.dirname(os.path.abspath(__file__))))
pid, spec = sys.argv[1], json.loads(sys.argv[2])
d = tempfile.mkdtemp(prefix='slice', dir='/verif/.work'); os.environ['VERIF_SCRATCH'] = d; os.environ['TMPDIR'] = d
import tempfile as _t; _t.tempdir = d
mod = importlib.import_module('vf.props.' + pid.lower())
t0 = time.time()
it = mod.replay(spec['witness']) if spec.get('mode') == 'replay' else mod.run_slice(spec)
if isinstance(it, dict): it = [it]
cnt = {}
for r in it:
  cnt[r['verdict']] = cnt.get(r['verdict'], 0) + 1
  if r['verdict'] != 'ok' or '-v' in sys.argv:
    print('%6.1fs %s %s mech=%s\n%s' % (time.time() - t0, r.get('case'), r['verdict'], r.get('mechanism'), (r.get('detail') or '')[:3000]))
    sys.stdout.flush()
print(cnt, '%.1fs' % (time.time() - t0))
import shutil; shutil.rmtree(d, ignore_errors=True)
