"""Mechanism classifiers for known findings (DESIGN.md 2.6).

A classifier looks at the (delta-debugged) witness program and the divergence
record and returns a mechanism key, or None. Keys are recorded in
known_findings.json; an unclassified divergence is always a VIOLATION.
"""
import ast

from vf.gen import grammar


def _fn_tree(src):
  body = src[len(grammar.PREAMBLE):] if src.startswith(grammar.PREAMBLE) else src
  try:
    return ast.parse(body)
  except SyntaxError:
    return None


def classify_c01(src, detail):
  return None
