"""Mechanism classifiers for known findings (DESIGN.md 2.6).

A classifier looks at the (delta-debugged) witness program and the divergence
record and returns a mechanism key, or None. Keys are recorded in
known_findings.json; an unclassified divergence is always a VIOLATION.
"""
import ast

from vf.gen import grammar


def _fn_tree(src):
  body = src[len(grammar.PREAMBLE):] if src.startswith(grammar.PREAMBLE) else src
  try:
    return ast.parse(body)
  except SyntaxError:
    return None


def classify_c01(src, detail, inputs=None, mode='to_graph', feats=()):
  """Returns the key of the recorded mechanism that explains the divergence, or None.

  lambda-called-later-closure-not-live: liveness deliberately ignores lambdas as closures (liveness.py lamba_check:
  'assumed to be used only in the place where they are defined'). The classifier does not guess from the shape of the
  program: it repeats the differential run with that one exception switched off in the running interpreter (a patch
  of the class attribute, nothing on disk) and attributes the divergence to the mechanism only if it disappears.
  """
  tree = _fn_tree(src)
  if tree is None or inputs is None:
    return None
  if not any(isinstance(n, ast.Lambda) for n in ast.walk(tree)):
    return None
  from malt.pyct.static_analysis import liveness
  from vf import stream
  real = liveness.Analyzer.lamba_check
  liveness.Analyzer.lamba_check = lambda self, fn_ast_node: False
  try:
    r = stream.diff_case(src, inputs, mode, list(feats or []))
  except Exception:  # pylint:disable=broad-except
    return None
  finally:
    liveness.Analyzer.lamba_check = real
  if r['verdict'] == 'ok':
    return 'lambda-called-later-closure-not-live'
  return None
