"""C19 — static type inference over-approximates the types that occur at run time.

Oracle: CPython running a type-probe twin (vf.instr.tytwin). Every evaluated
expression, every executed binding and every captured variable at every call of
a local function is logged with the abstract type of its value under the index
of the AST node the real analysis annotated. The deciding comparison: where a
node carries a TYPES annotation, the annotation must cover every observed type;
where a local function carries CLOSURE_TYPES for a captured variable, they must
cover the type the variable had at every call.

The resolver handed to the real `type_inference.resolve` is truthful by
construction and is itself monitored: every answer it gives for a call to a
typed external is checked against the values that call returned in the twin.
"""
import ast
import operator
import signal
import typing

from vf.gen import typed
from vf.instr import twin as twin_mod
from vf.instr import tytwin

ID = 'C19'
LEVEL = 'exploration'
RULE = ('generated functions of the quantified class (int/float/bool/str/list/tuple values; assignment, tuple unpacking, aug-assignment, '
        'if/while/for joins, re-assignment with another type on some path and inside loops, nested functions reading and rebinding '
        'nonlocal variables, calls to typed external and to local functions), analysed by the real qual_names / activity / cfg / '
        'reaching_definitions / reaching_fndefs / type_inference passes with a truthful resolver, and run as type-probe twins on 4 '
        'inputs; a case = one program; judged events = (AST node, observed abstract type) pairs on nodes that carry a TYPES annotation, '
        'and (local function, captured variable, type at a call) triples that have a CLOSURE_TYPES entry; non-trivial = >= 10 annotated '
        'pairs judged; distinct = (mode, features, shape hash)')
ASSUMPTIONS = ['a set containing typing.Any is read as "unknown", i.e. it covers every type',
               'tuples are compared in the vocabulary of the inference itself: a tuple of element types (StmtInferrer.visit_Tuple)',
               'external names keep the value they have at analysis time (module docstring of type_inference.py)',
               'local functions are called by their own name only; programs do not alias them']
MIN_JUDGED = {'quick': 3000, 'thorough': 40000}
SLICE_TIMEOUT = {'quick': 1200, 'thorough': 5400}

Any = typing.Any


def plan(tier, seed):
  n = 400 if tier == 'quick' else 5000
  specs = []
  for k in range(8):
    specs.append({'mode': 'clean', 'seed': seed, 'slice': k, 'n': n, 'hashseed': (seed * 16 + k) % 4294967295})
    specs.append({'mode': 'hostile', 'seed': seed, 'slice': k, 'n': n, 'hashseed': (seed * 16 + k + 8) % 4294967295})
  return specs


# ---------------------------------------------------------------- truthful resolver

def contains_any(t):
  if t is Any:
    return True
  if isinstance(t, tuple):
    return any(contains_any(e) for e in t)
  return False


def concrete(types):
  return types is not None and not any(contains_any(t) for t in types) and all(
      isinstance(t, (type, tuple)) for t in types)


CMP = {ast.Eq: operator.eq, ast.NotEq: operator.ne, ast.Lt: operator.lt, ast.LtE: operator.le, ast.Gt: operator.gt,
       ast.GtE: operator.ge}
BIN = {ast.Add: operator.add, ast.Sub: operator.sub, ast.Mult: operator.mul, ast.Div: operator.truediv,
       ast.FloorDiv: operator.floordiv, ast.Mod: operator.mod}
UN = {ast.USub: operator.neg, ast.UAdd: operator.pos, ast.Not: operator.not_}


def make_resolver(namespace, stats):
  from malt.pyct.static_analysis import type_inference

  def apply(fn, *type_sets):
    """Types of fn applied to a representative of every combination of operand types; combinations on which the real
    operator raises contribute nothing. None (unknown) if nothing is left or an operand is not concrete."""
    if not all(concrete(ts) for ts in type_sets):
      return None
    import itertools
    out = set()
    for combo in itertools.product(*type_sets):
      try:
        out.add(typed.abstract(fn(*[typed.rep(t) for t in combo])))
      except Exception:  # pylint:disable=broad-except
        pass
    return out or None

  class Truthful(type_inference.Resolver):

    def res_name(self, ns, types_ns, name):
      stats['res_name'] = stats.get('res_name', 0) + 1
      s = str(name)
      if s in namespace:
        v = namespace[s]
        return {typed.abstract(v)}, v
      import builtins
      if hasattr(builtins, s):
        v = getattr(builtins, s)
        return {type(v)}, v
      return None, None

    def res_value(self, ns, value):
      stats['res_value'] = stats.get('res_value', 0) + 1
      return {typed.abstract(value)}

    def res_arg(self, ns, types_ns, f_name, name, type_anno, f_is_local):
      stats['res_arg'] = stats.get('res_arg', 0) + 1
      if not f_is_local and f_name == 'f':
        return set(typed.ARG_TYPES[str(name)])
      if type_anno is not None and str(type_anno) == 'int':
        return {int}      # the generator passes int to annotated parameters; verified by the probe on the parameter
      return None

    def res_call(self, ns, types_ns, node, f_type, args, keywords):
      stats['res_call'] = stats.get('res_call', 0) + 1
      fn = node.func.id if isinstance(node.func, ast.Name) else None
      if fn in typed.EXT and typed.EXT[fn] is not None:
        return set(typed.EXT[fn]), None
      return None, None

    def res_slice(self, ns, types_ns, node_or_slice, value, slice_):
      stats['res_slice'] = stats.get('res_slice', 0) + 1
      if isinstance(node_or_slice, int):
        idx = node_or_slice
      elif isinstance(node_or_slice, ast.Subscript) and isinstance(node_or_slice.slice, ast.Constant) and \
          isinstance(node_or_slice.slice.value, int):
        idx = node_or_slice.slice.value
      else:
        return None
      out = set()
      for t in value:
        if isinstance(t, tuple) and -len(t) <= idx < len(t):
          out.add(t[idx])
        else:
          return None
      return out or None

    def res_compare(self, ns, types_ns, node, left, right):
      stats['res_compare'] = stats.get('res_compare', 0) + 1
      if len(node.ops) != 1 or type(node.ops[0]) not in CMP:
        return None
      return apply(CMP[type(node.ops[0])], left, right[0])

    def res_unop(self, ns, types_ns, node, opnd):
      stats['res_unop'] = stats.get('res_unop', 0) + 1
      if type(node.op) not in UN:
        return None
      return apply(UN[type(node.op)], opnd)

    def res_binop(self, ns, types_ns, node, left, right):
      stats['res_binop'] = stats.get('res_binop', 0) + 1
      if type(node.op) not in BIN:
        return None
      if isinstance(node.op, ast.Mult) and any(isinstance(t, tuple) for t in list(left) + list(right)):
        return None      # length of tuple * int depends on the value
      return apply(BIN[type(node.op)], left, right)

    def res_list_literal(self, ns, elt_types):
      stats['res_list_literal'] = stats.get('res_list_literal', 0) + 1
      return {list}

  return Truthful()


# ---------------------------------------------------------------- oracle

def covers(ann, t):
  """Does annotation element `ann` cover observed abstract type `t`?"""
  if ann is Any:
    return True
  if isinstance(ann, tuple):
    return isinstance(t, tuple) and len(t) == len(ann) and all(covers(a, b) for a, b in zip(ann, t))
  if isinstance(ann, type):
    return ann is t
  import collections.abc
  if typing.get_origin(ann) is collections.abc.Callable:
    return callable_type(t)
  return False


def callable_type(t):
  import types
  return t in (types.FunctionType, types.BuiltinFunctionType, types.MethodType, type)


def covered(anns, t):
  return any(covers(a, t) for a in anns)


def tname(t):
  if isinstance(t, tuple):
    return '(%s)' % ', '.join(tname(e) for e in t)
  return getattr(t, '__name__', repr(t))


class Timeout(BaseException):
  pass


def _alarm(signum, frame):
  raise Timeout()


def analyse(src):
  from malt.pyct import anno, cfg, qual_names, transformer
  from malt.pyct.static_analysis import activity, reaching_definitions, reaching_fndefs, type_inference
  tree = ast.parse(src)
  nodes = twin_mod.number(tree)
  top = [n for n in tree.body if isinstance(n, ast.FunctionDef) and n.name == 'f'][0]
  ns = {}
  exec(compile(typed.HEADER, '<ext>', 'exec'), ns)  # pylint:disable=exec-used
  stats = {}
  resolver = make_resolver(ns, stats)
  info = transformer.EntityInfo(name='f', source_code=src, source_file=None, future_features=(), namespace=ns)
  ctx = transformer.Context(info, None, None)
  node = qual_names.resolve(top)
  node = activity.resolve(node, ctx, None)
  graphs = cfg.build(node)
  node = reaching_definitions.resolve(node, ctx, graphs)
  node = reaching_fndefs.resolve(node, ctx, graphs)
  node = type_inference.resolve(node, ctx, graphs, resolver)
  return tree, nodes, stats


def run_twin(tree, src, inputs):
  t2 = tytwin.make(tree, src)
  code = compile(t2, '<tytwin>', 'exec')
  rec = tytwin.Recorder()
  ns = dict(rec.namespace())
  exec(code, ns)  # pylint:disable=exec-used
  ref_ns = {}
  exec(compile(src, '<subject>', 'exec'), ref_ns)  # pylint:disable=exec-used
  old = signal.signal(signal.SIGALRM, _alarm)
  outcome = 'ok'
  try:
    for a in inputs:
      signal.setitimer(signal.ITIMER_REAL, 8, 0.5)
      try:
        want = repr(ref_ns['f'](*eval(a, ref_ns)))  # pylint:disable=eval-used
        got = repr(ns['f'](*eval(a, ns)))  # pylint:disable=eval-used
        if want != got:
          outcome = 'twin-diverges'
      except Timeout:
        outcome = 'timeout'
      except Exception as e:  # pylint:disable=broad-except
        outcome = 'generator-error: %s: %s' % (type(e).__name__, str(e)[:100])
      finally:
        signal.setitimer(signal.ITIMER_REAL, 0, 0)
      if outcome != 'ok':
        break
  finally:
    signal.signal(signal.SIGALRM, old)
  return rec, outcome


def classify(nodes, par, k, t, did, wfid, ofid, kind):
  """Mechanism of a root violation, or None."""
  from malt.pyct import anno
  if did is not None:
    w = nodes[did]
    if wfid is not None and ofid is not None and wfid != ofid:
      return 'rebinding-by-local-function-not-applied-to-caller'
    # the binding that produced the value is one the inference attached no type to
    if not anno.hasanno(w, anno.Static.TYPES):
      return 'binding-of-unknown-type-keeps-previous-type'
  return None


def judge(cid, src, mode, feats, inputs):
  from malt.pyct import anno
  out = {'case': cid, 'verdict': 'ok', 'counters': {}}
  C = out['counters']
  old_h = signal.signal(signal.SIGALRM, _alarm)
  signal.setitimer(signal.ITIMER_REAL, 20, 0.5)
  try:
    try:
      tree, nodes, stats = analyse(src)
    finally:
      signal.setitimer(signal.ITIMER_REAL, 0, 0)
      signal.signal(signal.SIGALRM, old_h)
  except Timeout:
    # product types of nested tuple displays can grow without bound around a loop; termination is not part of C19
    out['verdict'] = 'skip'
    out['detail'] = 'analysis did not reach a fixed point within 20 s'
    C['analysis_no_fixed_point_within_20s'] = 1
    return out
  except Exception as e:  # pylint:disable=broad-except
    out['verdict'] = 'violation'
    out['mechanism'] = 'analysis-raises'
    import traceback
    tb = traceback.extract_tb(e.__traceback__)
    where = ' <- '.join('%s:%d %s' % (f.filename.split('/')[-1], f.lineno, f.name) for f in reversed(tb[-4:]))
    out['detail'] = 'type inference failed: %s: %s (%s)\n%s' % (type(e).__name__, str(e)[:300], where, body_of(src))
    out['witness'] = {'src': src, 'mode': mode, 'feats': feats, 'inputs': inputs}
    return out
  for k_, v_ in stats.items():
    C['resolver_' + k_] = v_
  try:
    rec, outcome = run_twin(tree, src, inputs)
  except ValueError as e:
    out['verdict'] = 'skip'
    out['detail'] = str(e)
    C['outside_class'] = 1
    return out
  if outcome == 'timeout':
    out['verdict'] = 'inconclusive'
    out['detail'] = 'watchdog'
    C['watchdog_inconclusive'] = 1
    return out
  if outcome != 'ok':
    out['verdict'] = 'inconclusive'
    out['detail'] = 'harness: %s\n%s' % (outcome, body_of(src))
    return out
  par = {}
  for n in ast.walk(tree):
    for ch in ast.iter_child_nodes(n):
      par[ch._vf_k] = n._vf_k
  viol = {}     # k -> (type, did, wfid)
  judged = 0
  unannotated = 0
  with_any = 0
  for k, d in rec.obs.items():
    node = nodes[k]
    anns = anno.getanno(node, anno.Static.TYPES, None)
    if anns is None:
      unannotated += len(d)
      continue
    for t, (cnt, did, wfid, ofid) in d.items():
      judged += 1
      if any(contains_any(a) for a in anns):
        with_any += 1
      if not covered(anns, t):
        viol.setdefault(k, []).append((t, did, wfid, ofid))
  C['annotated_pairs_judged'] = judged
  C['pairs_on_unannotated_nodes'] = unannotated
  C['pairs_covered_only_by_any'] = with_any
  C['probe_events'] = rec.nevents
  C['invocations'] = rec.ninv
  # closure types
  cviol = []
  cj = 0
  for (kdef, name), d in rec.closure.items():
    fnode = nodes[kdef]
    ct = anno.getanno(fnode, anno.Static.CLOSURE_TYPES, None)
    if ct is None:
      C['local_functions_without_closure_types'] = C.get('local_functions_without_closure_types', 0) + 1
      continue
    entry = None
    for q, ts in ct.items():
      if str(q) == name:
        entry = ts
    if entry is None:
      C['captured_without_entry'] = C.get('captured_without_entry', 0) + 1
      continue
    for t, info in d.items():
      cj += 1
      if not covered(entry, t):
        cviol.append((kdef, name, t, info))
  C['closure_triples_judged'] = cj
  # root violations: nodes none of whose descendants is in violation
  def has_bad_descendant(k):
    for n in ast.walk(nodes[k]):
      if n is not nodes[k] and getattr(n, '_vf_k', None) in viol:
        return True
    return False
  roots = [k for k in viol if not has_bad_descendant(k)]
  # a Store name whose assigned value expression is in violation is not a root either
  def value_bad(k):
    p = par.get(k)
    while p is not None and not isinstance(nodes[p], ast.stmt):
      p = par.get(p)
    if p is None:
      return False
    st = nodes[p]
    if isinstance(st, ast.Assign) and isinstance(getattr(nodes[k], 'ctx', None), ast.Store):
      return any(getattr(n, '_vf_k', None) in viol for n in ast.walk(st.value))
    return False
  roots = [k for k in roots if not value_bad(k)]
  msgs, mechs = [], set()
  for k in sorted(roots):
    node = nodes[k]
    for t, did, wfid, ofid in viol[k]:
      if did is not None and did in viol:
        C['derived_violations_not_counted'] = C.get('derived_violations_not_counted', 0) + 1
        continue      # the binding that produced the value is itself reported: this read only repeats it
      mech = None
      if did is not None:
        mech = classify(nodes, par, k, t, did, wfid, ofid, 'read')
      anns = anno.getanno(node, anno.Static.TYPES)
      msgs.append('line %d: `%s` is annotated {%s} but evaluated to %s%s' % (
          getattr(node, 'lineno', 0), ast.unparse(node) if not isinstance(node, ast.arg) else node.arg,
          ', '.join(sorted(tname(a) for a in anns)), tname(t),
          (' (value bound at line %d by `%s`)' % (getattr(nodes[did], 'lineno', 0), stmt_src(nodes, par, did))) if did is not None else '')
          + ' [%s]' % mech)
      mechs.add(mech)
  for kdef, name, t, info in cviol:
    did, wfid, ofid = info['writer']
    if did is not None and did in viol:
      continue
    mech = None
    if did is not None:
      mech = classify(nodes, par, kdef, t, did, wfid, ofid, 'closure')
    msgs.append('local function %s (line %d): CLOSURE_TYPES[%s] = {%s} but %s was %s at a call%s' % (
        nodes[kdef].name, nodes[kdef].lineno, name,
        ', '.join(sorted(tname(a) for a in closure_entry(nodes[kdef], name))), name, tname(t),
        (' (value bound at line %d by `%s`)' % (getattr(nodes[did], 'lineno', 0), stmt_src(nodes, par, did))) if did is not None else ''))
    mechs.add(mech)
  if msgs:
    out['verdict'] = 'violation'
    # The mechanism is reported for diagnosis (both recorded C19 findings are repaired; none is open). Programs of
    # the clean class contain no binding of unknown static type to a variable that also receives typed bindings and
    # no nonlocal rebinding with another type, so there a violation is never attributed to a mechanism.
    if mode == 'clean':
      out['suspected_mechanisms'] = sorted(str(m) for m in mechs)
    elif None not in mechs and len(mechs) == 1:
      out['mechanism'] = next(iter(mechs))
    elif None not in mechs:
      out['mechanism'] = sorted(mechs)[0]
      out['all_mechanisms'] = sorted(mechs)
    out['detail'] = '; '.join(sorted(msgs, key=lambda m: '[None]' not in m)[:4]) + '\n' + body_of(src)
    out['witness'] = {'src': src, 'mode': mode, 'feats': feats, 'inputs': inputs}
    C['violating_nodes'] = len(viol)
    return out
  out['nontrivial'] = judged >= 10
  out['sig'] = '%s|%s|%d' % (mode, ','.join(feats), hash(tuple(type(n).__name__ for n in ast.walk(tree))) % 100000)
  return out


def closure_entry(fnode, name):
  from malt.pyct import anno
  ct = anno.getanno(fnode, anno.Static.CLOSURE_TYPES, {})
  for q, ts in ct.items():
    if str(q) == name:
      return ts
  return ()


def stmt_src(nodes, par, k):
  p = k
  while p is not None and not isinstance(nodes[p], (ast.stmt, ast.arg)):
    p = par.get(p)
  if p is None:
    return '?'
  n = nodes[p]
  if isinstance(n, ast.arg):
    return 'parameter ' + n.arg
  s = ast.unparse(n).split('\n')[0]
  return s[:80]


def body_of(src):
  i = src.index('def f(')
  base = src[:i].count('\n')
  return '\n'.join('%3d %s' % (base + j + 1, l) for j, l in enumerate(src[i:].split('\n')))


def run_slice(spec):
  for i in range(spec['n']):
    cid = 'C19/%s/%d/%d/%d' % (spec['mode'], spec['seed'], spec['slice'], i)
    src, feats = typed.gen(cid, spec['mode'])
    out = judge(cid, src, spec['mode'], feats, typed.INPUTS)
    out['counters']['programs_' + spec['mode']] = 1
    if out['verdict'] == 'ok' and i % 15 == 4:
      out['sample'] = {'case': cid, 'features': feats, 'annotated_pairs_judged': out['counters'].get('annotated_pairs_judged'),
                       'closure_triples_judged': out['counters'].get('closure_triples_judged'),
                       'program': src[src.index('def f('):][:1500]}
    yield out


def replay(w):
  return judge('replay', w['src'], w.get('mode', 'hostile'), w.get('feats', []), w.get('inputs', typed.INPUTS))


def conclusive(cov, tier):
  if cov.get('annotated_pairs_judged', 0) < 5000 or cov.get('closure_triples_judged', 0) < 100:
    return 'too little judged: %s annotated pairs, %s closure triples' % (
        cov.get('annotated_pairs_judged'), cov.get('closure_triples_judged'))
  return None
