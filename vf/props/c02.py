"""C02 — functional (tracing) operator backends see complete state.

The real converted function is executed with vf.mon.tracing.TracingBackend
installed in place of the control-flow operators and compared with the
unconverted function running natively.
"""
import ast
import random

from vf import diff
from vf import stream
from vf.gen import closures
from vf.gen import grammar
from vf.gen import skeleton
from vf.mon import tracing

ID = 'C02'
LEVEL = 'exploration'
RULE = ('pure, total, definitely-assigned programs: enumerated skeletons over {if, if/else, while, for} x {none, break, '
        'continue, return} with every decision vector (zero-trip loops and not-taken branches included) plus random programs '
        'of profile c02 (nested control flow to depth 4, closures that read, o.p / d[const] state, pure callees); each is '
        'converted and run under the tracing backend (both branches traced, loops traced out of band, state re-injected) '
        'and compared with the native original; non-trivial = at least one operator invocation traced; distinct = shape signature')
ASSUMPTIONS = [
    'programs are side-effect free and total, so tracing a not-taken branch or a zero-trip loop body is harmless',
    'the dummy iterate of an empty for loop is 0 (or a tuple of zeros matching iterate_names)',
    'if_exp/and_/or_/not_/converted_call keep Python semantics (the property replaces the control-flow operators)',
]
MIN_JUDGED = {'quick': 300, 'thorough': 3000}
SLICE_TIMEOUT = {'quick': 1500, 'thorough': 7200}
PURE_CONSTRUCTS = ['if', 'ifelse', 'while', 'for']


def plan(tier, seed):
  n = 40 if tier == 'quick' else 500
  specs = [{'kind': 'random', 'seed': seed, 'slice': k, 'n': n, 'hashseed': (seed * 16 + k) % 4294967295}
           for k in range(16)]
  for k in range(16):
    specs.append({'kind': 'skeleton', 'seed': seed, 'slice': k, 'parts': 16, 'tier': tier,
                  'hashseed': (seed * 16 + k + 5) % 4294967295})
  specs.append({'kind': 'closures', 'seed': seed, 'hashseed': seed % 4294967295})
  return specs


def run_under_backend(src, inputs, mode='to_graph', feats=()):
  """Returns dict(verdict, detail, counters)."""
  res = {'verdict': 'ok', 'detail': None, 'counters': {}}
  mo = diff.load_instance(src + stream.CALLER_SRC, 'o')
  mc = diff.load_instance(src + stream.CALLER_SRC, 'c')
  be = tracing.TracingBackend()
  try:
    try:
      g, unwrap = stream.convert(mc, mode, list(feats))
    except Exception as e:  # pylint:disable=broad-except
      res['verdict'] = 'skip'
      res['detail'] = 'conversion failed (C01): %r' % (e,)
      return res
    runs = 0
    with be:
      for a in inputs:
        o = diff.run(mo.f, mo, a)
        if o['kind'] != 'ret':
          # the quantifier is total programs; a raising/timeout original is a generator slip
          res['counters']['original_not_total'] = res['counters'].get('original_not_total', 0) + 1
          continue
        c = diff.run(g, mc, a, unwrap_convert=unwrap, timeout=20)
        if c['kind'] == 'timeout':
          res['counters']['watchdog_inconclusive'] = res['counters'].get('watchdog_inconclusive', 0) + 1
          continue
        runs += 1
        bad = diff.compare(o, c)
        if bad:
          res['verdict'] = 'violation'
          res['detail'] = 'input %s under the tracing backend: %s' % (a, bad)
          res['input'] = a
          break
    res['counters'].update(be.counters)
    res['counters']['run_pairs'] = runs
    res['samples'] = be.samples
    return res
  finally:
    diff.unload(mo)
    diff.unload(mc)


_reductions = [0]


def _kind(detail):
  d = detail or ''
  if 'converted exc ' in d:
    return d[d.index('converted exc '):][:120]
  for k in ('NameError', 'TypeError', 'PoisonRead', 'post-state differs', 'converted ret', 'converted exc'):
    if k in d:
      return k
  return 'other'


def judge(cid, src, inputs, reduce=True):
  # Only programs on which plain Python-semantics conversion agrees are judged
  # here; a C01 divergence is C01's business.
  base = stream.diff_case(src, inputs, 'to_graph', [])
  out = {'case': cid, 'verdict': 'ok', 'counters': {}}
  if base['verdict'] != 'ok':
    out['verdict'] = 'skip'
    out['counters'] = {'skipped_c01_divergent': 1}
    out['detail'] = (base.get('detail') or '')[:400]
    return out
  r = run_under_backend(src, inputs)
  out['counters'] = r['counters']
  out['verdict'] = r['verdict']
  if r['verdict'] == 'ok':
    out['nontrivial'] = (r['counters'].get('if_stmt', 0) + r['counters'].get('while_stmt', 0) +
                         r['counters'].get('for_stmt', 0)) > 0
    out['sig'] = grammar.shape_signature(src)
    out['samples'] = r.get('samples')
    return out
  if r['verdict'] != 'violation':
    out['detail'] = r['detail']
    return out
  wsrc, winputs = src, inputs
  _reductions[0] += 1
  if reduce and _reductions[0] <= 3:
    winputs = [r['input']]

    kind0 = _kind(r['detail'])

    def still(text):
      # stay inside the quantifier: callees are used inside int expressions, so every helper still ends in a return
      try:
        for fn_ in ast.parse(text).body:
          if isinstance(fn_, ast.FunctionDef) and fn_.name[:1] == 'g' and fn_.name[1:].isdigit() and not (
              fn_.body and isinstance(fn_.body[-1], ast.Return)):
            return False
      except SyntaxError:
        return False
      b = stream.diff_case(text, winputs, 'to_graph', [])
      if b['verdict'] != 'ok':
        return False
      rr = run_under_backend(text, winputs)
      # stay inside the quantifier: a candidate that fails with a NameError /
      # TypeError the original failure did not show has lost an initialisation
      return rr['verdict'] == 'violation' and _kind(rr['detail']) == kind0

    wsrc = stream.reduce_source(src, still, 40, keep_defassign=True)
    r2 = run_under_backend(wsrc, winputs)
    if r2['verdict'] == 'violation':
      r = r2
    else:
      wsrc = src
  out['detail'] = r['detail'] + '\n--- program ---\n' + stream.body_of(wsrc)
  out['witness'] = {'src': wsrc, 'inputs': winputs}
  return out


def run_slice(spec):
  if spec['kind'] == 'random':
    for i in range(spec['n']):
      cid = 'C02/%d/%d/%d' % (spec['seed'], spec['slice'], i)
      src, meta = grammar.gen_module(cid, grammar.profile('c02'))
      inputs = grammar.gen_inputs(cid, 6)
      out = judge(cid, src, inputs)
      smp = out.pop('samples', None)
      if out['verdict'] == 'ok' and i % 10 == 2:
        out['sample'] = {'case': cid, 'inputs': inputs[:2], 'traced': {k: v for k, v in out['counters'].items()},
                         'state_tuples': smp, 'program': stream.body_of(src)[:1500]}
      yield out
  elif spec['kind'] == 'closures':
    for cid, src, inputs in closures.cases(pure=True):
      if '/lambda/' in cid:
        continue
      out = judge('C02' + cid, src, inputs, reduce=False)
      out.pop('samples', None)
      out['counters']['closure_programs'] = 1
      if out['verdict'] == 'ok':
        out['sig'] = cid
      yield out
  else:
    for cid, src, inputs in skeleton.cases(spec['seed'], spec['slice'], spec['parts'], spec['tier'], pure=True,
                                           constructs=PURE_CONSTRUCTS):
      out = judge(cid.replace('skel/', 'C02skel/'), src, inputs)
      out.pop('samples', None)
      out['counters']['skeletons'] = 1
      yield out


def replay(w):
  return judge('replay', w['src'], w['inputs'], reduce=False)


def conclusive(cov, tier):
  if cov.get('out_of_band_traces', 0) == 0 or cov.get('branches_traced', 0) == 0:
    return 'tracing backend never invoked'
  return None
