"""C06 — reaching definitions and defined-on-entry sets are sound.

Oracle: the last-writer shadow environment of the instrumented twin (which
binding occurrence actually produced the value each read saw) and the
interpreter's own locals() at the entry of compound statements.
"""
import ast

from vf import stream
from vf.gen import grammar
from vf.gen import skeleton
from vf.instr import subject as subj

ID = 'C06'
LEVEL = 'exploration'
RULE = ('random programs of profile c06 (C01 class without implicit exceptions: loop targets reassigned in bodies, zero-trip '
        'loops, del, aug-assign, tuple targets, try/except/finally, nested functions reading enclosing variables) and enumerated '
        'skeletons with all decision vectors; the real analyses annotate the tree whose twin is executed. Every read event is '
        'checked against DEFINITIONS of its Name node, every if/for/while/try entry against DEFINED_VARS_IN, every recorded '
        'Analyzer against its own transfer equations. non-trivial = >= 1 read event judged; distinct = program shape signature')
ASSUMPTIONS = ['a binding occurrence is identified with the single Definition the analysis attached to its store-context node '
               '(parameters: the arg node; def/import names: the analyzer gen_map entry of their statement)',
               'reads inside lambda bodies and of except-clause names are not judged (the analysis documents them as untracked)']
MIN_JUDGED = {'quick': 300, 'thorough': 3000}
SLICE_TIMEOUT = {'quick': 1500, 'thorough': 7200}


def plan(tier, seed):
  n = 40 if tier == 'quick' else 500
  specs = [{'kind': 'random', 'seed': seed, 'slice': k, 'n': n, 'hashseed': (seed * 16 + k) % 4294967295}
           for k in range(12)]
  specs += [{'kind': 'skeleton', 'seed': seed, 'slice': k, 'parts': 8, 'tier': tier,
             'hashseed': (seed * 16 + k + 1) % 4294967295} for k in range(8)]
  return specs


def writer_defs(sub, did, name):
  """Definition objects the analysis created at binding occurrence `did`."""
  from malt.pyct import anno, qual_names
  w = sub.nodes[did]
  if isinstance(w, (ast.Name, ast.arg)):
    d = anno.getanno(w, anno.Static.DEFINITIONS, None)
    return None if d is None else tuple(d)
  # def / class / import alias: look the statement up in the recorded analyzers
  stmt = w
  if isinstance(w, ast.alias):
    stmt = sub.nodes[sub.par[did]]
  qn = qual_names.QN(name)
  for a in sub.recorders.rd:
    for node, state in a.gen_map.items():
      if node.ast_node is stmt:
        ds = state.value.get(qn)
        if ds:
          return tuple(ds)
  return None


def in_lambda(sub, k):
  k = sub.par.get(k)
  while k is not None:
    if isinstance(sub.nodes[k], ast.Lambda):
      return True
    if isinstance(sub.nodes[k], ast.FunctionDef):
      return False
    k = sub.par.get(k)
  return False


def enclosing_function(sub, k):
  while k is not None:
    if isinstance(sub.nodes[k], ast.FunctionDef):
      return k
    k = sub.par.get(k)
  return None


def fixed_point_problems(sub):
  from malt.pyct import anno
  from malt.pyct.static_analysis import reaching_definitions as rd
  probs = []
  n_nodes = 0
  for a in sub.recorders.rd:
    graph = a.graph
    # loop-exit edges: header -> node after the loop (nothing is bound or killed there)
    exit_edges = {}
    for stmt, succ in graph.stmt_next.items():
      if isinstance(stmt, ast.For) and not stmt.orelse and stmt.iter in graph.index:
        exit_edges[graph.index[stmt.iter]] = set(succ)
    for node in graph.index.values():
      n_nodes += 1
      lower = rd._NodeState()
      upper = rd._NodeState()
      for p in node.prev:
        if node in exit_edges.get(p, ()):
          # in[p] <= contribution <= in[p] | out[p]
          lower = lower | a.in_[p]
          upper = upper | a.in_[p] | a.out[p]
        else:
          lower = lower | a.out[p]
          upper = upper | a.out[p]
      got = a.in_[node].value
      bad = None
      for sym, defs in lower.value.items():
        if not set(defs) <= set(got.get(sym, ())):
          bad = 'lacks definitions of %s that leave a predecessor' % sym
      for sym, defs in got.items():
        if not set(defs) <= set(upper.value.get(sym, ())):
          bad = 'has definitions of %s that no predecessor provides' % sym
      if bad:
        probs.append('reaching definitions: in[%r] %s' % (node, bad))
        continue
      if anno.hasanno(node.ast_node, anno.Static.SCOPE) and node in a.gen_map:
        scope = anno.getanno(node.ast_node, anno.Static.SCOPE)
        kill = scope.modified | scope.deleted
        exp_out = a.gen_map[node] | (a.in_[node] - kill)
        if not (exp_out == a.out[node]):
          probs.append('reaching definitions: out[%r] != gen | (in - kill)' % (node,))
  return probs, n_nodes


def judge(cid, src, inputs, fnames):
  from malt.pyct import anno
  out = {'case': cid, 'verdict': 'ok', 'counters': {}}
  C = out['counters']
  try:
    sub = subj.Subject(src)
    sub.analyse(fnames, upto='reaching_definitions')
  except Exception as e:  # pylint:disable=broad-except
    out['verdict'] = 'skip'
    out['detail'] = 'analysis failed (C05/C01 business): %s: %s' % (type(e).__name__, str(e)[:200])
    C['skipped_analysis_error'] = 1
    return out
  probs, nn = fixed_point_problems(sub)
  C['fixed_point_nodes_checked'] = nn
  analysed = {sub.top_function(n)._vf_k for n in fnames if sub.top_function(n) is not None}
  # except-clause names are documented as untracked by the analysis
  handler_names = {n.name for n in sub.nodes if isinstance(n, ast.ExceptHandler) and n.name}
  if not probs:
    for a in inputs:
      ref = sub.run_plain('f', a)
      res, events = sub.run('f', a)
      if ref['kind'] == 'timeout' or res['kind'] == 'timeout':
        C['watchdog_inconclusive'] = C.get('watchdog_inconclusive', 0) + 1
        continue
      if (ref['kind'], ref.get('value'), ref['log']) != (res['kind'], res.get('value'), res['log']):
        out['verdict'] = 'inconclusive'
        out['detail'] = 'twin diverges from the original (harness)\n' + stream.body_of(src)
        return out
      inv_fid = {}
      for ev in events:
        if ev[0] == 'enter':
          inv_fid[ev[1]] = ev[2]
        elif ev[0] == 'R':
          _, owner, name, rid, did, inv = ev
          if did is None:
            continue
          top = enclosing_function(sub, rid)
          # only reads inside analysed trees (top-level function and everything nested in it)
          t = top
          while t is not None and t not in analysed:
            t = enclosing_function(sub, sub.par.get(t))
          if t is None:
            continue
          if in_lambda(sub, rid):
            C['reads_in_lambda_not_judged'] = C.get('reads_in_lambda_not_judged', 0) + 1
            continue
          rnode = sub.nodes[rid]
          rdefs = anno.getanno(rnode, anno.Static.DEFINITIONS, None)
          if rdefs is None:
            C['reads_without_annotation'] = C.get('reads_without_annotation', 0) + 1
            continue
          wdefs = writer_defs(sub, did, name)
          if wdefs is None:
            C['writers_without_definition'] = C.get('writers_without_definition', 0) + 1
            continue
          C['read_events_judged'] = C.get('read_events_judged', 0) + 1
          # the binding and the read sit in different functions (closure variable)
          cross = enclosing_function(sub, did) != enclosing_function(sub, rid)
          if cross:
            C['cross_function_reads_judged'] = C.get('cross_function_reads_judged', 0) + 1
          if not any(d in rdefs for d in wdefs):
            w = sub.nodes[did]
            probs.append('input %s: read of `%s` at line %d saw the value bound at line %d (%s), which is not among its %d reaching definitions%s' % (
                a, name, rnode.lineno, getattr(w, 'lineno', 0), type(w).__name__, len(rdefs),
                ' [closure variable: binding and read are in different functions]' if cross else ''))
            if cross:
              out['cross'] = True
            break
        elif ev[0] == 'E':
          _, inv, sid, names = ev
          st = sub.nodes[sid]
          dv = anno.getanno(st, anno.Static.DEFINED_VARS_IN, None)
          if dv is None:
            continue
          C['statement_entries_judged'] = C.get('statement_entries_judged', 0) + 1
          have = {str(q) for q in dv}
          missing = sorted(n for n in names if n not in have and not n.startswith('_vf_') and n not in handler_names)
          if missing:
            probs.append('input %s: entering the %s at line %d with %s bound, but DEFINED_VARS_IN lacks %s' % (
                a, type(st).__name__, st.lineno, sorted(names), missing))
            break
      if probs:
        break
  if probs:
    out['verdict'] = 'violation'
    out['detail'] = '; '.join(probs[:2]) + '\n--- program ---\n' + '\n'.join(
        '%3d %s' % (i + 1, l) for i, l in enumerate(src.split('\n')) if i + 1 > grammar.PREAMBLE.count('\n'))
    out['witness'] = {'src': src, 'inputs': inputs, 'fnames': fnames}
    if out.pop('cross', False) and len(probs) == 1:
      out['mechanism'] = 'definitions-do-not-cross-function-boundaries'
    return out
  out.pop('cross', None)
  out['nontrivial'] = C.get('read_events_judged', 0) > 0
  out['sig'] = grammar.shape_signature(src)
  return out


def fnames_of(src):
  return [n.name for n in ast.parse(src).body if isinstance(n, ast.FunctionDef) and (
      n.name == 'f' or (n.name.startswith('g') and n.name[1:].isdigit()))]


def run_slice(spec):
  if spec['kind'] == 'random':
    for i in range(spec['n']):
      cid = 'C06/%d/%d/%d' % (spec['seed'], spec['slice'], i)
      src, meta = grammar.gen_module(cid, grammar.profile('c06'))
      inputs = grammar.gen_inputs(cid, 5)
      out = judge(cid, src, inputs, fnames_of(src))
      if out['verdict'] == 'ok' and i % 10 == 2:
        out['sample'] = {'case': cid, 'inputs': inputs[:2], 'read_events_judged': out['counters'].get('read_events_judged'),
                         'statement_entries_judged': out['counters'].get('statement_entries_judged'),
                         'program': stream.body_of(src)[:1500]}
      yield out
  else:
    for cid, src, inputs in skeleton.cases(spec['seed'], spec['slice'], spec['parts'], spec['tier']):
      out = judge(cid.replace('skel/', 'C06skel/'), src, inputs[:16], ['f'])
      out['counters']['skeletons'] = 1
      yield out


def replay(w):
  return judge('replay', w['src'], w['inputs'], w['fnames'])


def conclusive(cov, tier):
  if cov.get('read_events_judged', 0) < 5000 or cov.get('statement_entries_judged', 0) < 1000:
    return 'too few events judged: %s reads, %s entries' % (cov.get('read_events_judged'), cov.get('statement_entries_judged'))
  return None
