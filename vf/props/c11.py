"""C11 — generated names never capture, shadow or clash with user names.

Two observers: (1) the C01 differential on programs whose identifiers are the
converter's own vocabulary in every role; (2) a recorder on the real
Namer.new_symbol: every name it hands out during the conversion of function F
is compared with the identifiers of F's original source (CPython's parser) and
F's namespace (globals + closure).
"""
import ast
import inspect
import random
import textwrap

from vf import diff
from vf import stream
from vf.gen import grammar
from vf.props import c01

ID = 'C11'
LEVEL = 'exploration'
RULE = ('programs of the C01 class whose variables, parameters-in-nested-functions, loop targets, nested function names, '
        'lambda parameters, loop counters and module globals are drawn from the converter vocabulary (do_return, retval_, '
        'break_, continue_, fscope, lscope, get_state, set_state, if_body, else_body, loop_body, loop_test, extra_test, itr, '
        'vars_ and _1 variants), plus hand-enumerated role cases; each is converted and run differentially, and every '
        'Namer.new_symbol result is checked against the identifiers of the function being converted; non-trivial = at least '
        'one generated name checked against a source that contains vocabulary identifiers; distinct = shape signature x identifier assignment')
ASSUMPTIONS = [
    'identifiers of a function = Name/arg/def/global/nonlocal/handler/alias names in ast.parse of its own source',
    "the parameter name 'ag__' and factory names are outside the property's vocabulary and are not used as user names",
]
MIN_JUDGED = {'quick': 300, 'thorough': 3000}
SLICE_TIMEOUT = {'quick': 1500, 'thorough': 7200}

VOCAB = list(grammar.ADV_ROOTS)


def plan(tier, seed):
  n = 40 if tier == 'quick' else 500
  specs = [{'kind': 'random', 'seed': seed, 'slice': k, 'n': n, 'hashseed': (seed * 16 + k) % 4294967295}
           for k in range(15)]
  specs.append({'kind': 'roles', 'seed': seed, 'hashseed': seed})
  return specs


def identifiers_of(fn):
  try:
    src = textwrap.dedent(inspect.getsource(fn))
    tree = ast.parse(src)
  except (OSError, SyntaxError, TypeError, IndentationError):
    return None
  ids = set()
  for n in ast.walk(tree):
    if isinstance(n, ast.Name):
      ids.add(n.id)
    elif isinstance(n, ast.arg):
      ids.add(n.arg)
    elif isinstance(n, (ast.FunctionDef, ast.ClassDef)):
      ids.add(n.name)
    elif isinstance(n, (ast.Global, ast.Nonlocal)):
      ids.update(n.names)
    elif isinstance(n, ast.ExceptHandler) and n.name:
      ids.add(n.name)
    elif isinstance(n, ast.alias):
      ids.add((n.asname or n.name).split('.')[0])
  return ids


class NamerRecorder(object):
  """Wraps naming.Namer.new_symbol and GenericTranspiler.transform_function."""

  def __init__(self):
    self.stack = []
    self.events = []     # (function qualname, root, returned name)
    self.problems = []
    self.roots = set()
    self.checked = 0

  def __enter__(self):
    from malt.pyct import naming
    from malt.pyct import transpiler
    self.naming, self.transpiler = naming, transpiler
    if not hasattr(naming.Namer, 'new_symbol') or not hasattr(transpiler.GenericTranspiler, 'transform_function'):
      raise LookupError('hook point missing')
    self.real_new = naming.Namer.new_symbol
    self.real_tf = transpiler.GenericTranspiler.transform_function
    rec = self

    def new_symbol(namer, name_root, reserved_locals):
      out = rec.real_new(namer, name_root, reserved_locals)
      if rec.stack:
        fn, ids, ns = rec.stack[-1]
        rec.events.append((getattr(fn, '__qualname__', '?'), name_root, out))
        rec.roots.add(name_root.rstrip('_0123456789') or name_root)
        if ids is not None:
          rec.checked += 1
          if out in ids:
            rec.problems.append('generated name %r (root %r) is an identifier of the function being converted (%s)' % (
                out, name_root, getattr(fn, '__qualname__', '?')))
          elif out in ns:
            rec.problems.append('generated name %r (root %r) is in the namespace of %s' % (
                out, name_root, getattr(fn, '__qualname__', '?')))
      return out

    def transform_function(tr, fn, user_context):
      ns = set(getattr(fn, '__globals__', {}).keys()) | set(getattr(getattr(fn, '__code__', None), 'co_freevars', ()))
      rec.stack.append((fn, identifiers_of(fn), ns))
      try:
        return rec.real_tf(tr, fn, user_context)
      finally:
        rec.stack.pop()

    naming.Namer.new_symbol = new_symbol
    transpiler.GenericTranspiler.transform_function = transform_function
    return self

  def __exit__(self, *a):
    self.naming.Namer.new_symbol = self.real_new
    self.transpiler.GenericTranspiler.transform_function = self.real_tf


def judge(cid, src, inputs, mode, feats, reduce=True):
  with NamerRecorder() as rec:
    out = c01.judge(cid, src, inputs, mode, feats, reduce=False)
  out['counters'] = dict(out.get('counters') or {})
  out['counters']['generated_names_checked'] = rec.checked
  for r in rec.roots:
    out['counters']['root_' + r] = 1
  if out['verdict'] == 'violation':
    wsrc, winputs = src, inputs
    if reduce:
      def still(text):
        rr = stream.diff_case(text, winputs, mode, feats)
        return rr['verdict'] == 'violation'
      wsrc = stream.reduce_source(src, still, 30)
      r2 = stream.diff_case(wsrc, winputs, mode, feats)
      if r2['verdict'] == 'violation':
        out['detail'] = r2['detail'] + '\n--- program ---\n' + stream.body_of(wsrc)
      else:
        wsrc = src
    out['witness'] = {'src': wsrc, 'inputs': winputs, 'mode': mode, 'feats': feats}
    return out
  if rec.problems and out['verdict'] == 'ok':
    out['verdict'] = 'violation'
    out['detail'] = '; '.join(sorted(set(rec.problems))[:4]) + '\n--- program ---\n' + stream.body_of(src)
    out['witness'] = {'src': src, 'inputs': inputs, 'mode': mode, 'feats': feats}
    return out
  if out['verdict'] == 'ok':
    uses_vocab = any(v in stream.body_of(src) for v in VOCAB)
    out['nontrivial'] = rec.checked > 0 and uses_vocab
    out['names_sample'] = rec.events[:8]
  return out


ROLE_TEMPLATES = [
    # write-only local
    '''def f(a, b, c, xs, o, d):
    NAME = 7
    r = 0
    for i in xs:
        if i > a:
            continue
        if i < 0:
            break
        r += i
    while r > 100:
        r -= 1
    if a > 0:
        return (r, 1)
    return (r, b if a else c)
''',
    # read after the loop only
    '''def f(a, b, c, xs, o, d):
    NAME = a + 10
    r = 0
    for i in xs:
        if i > a:
            continue
        if i == 7:
            break
        r += i
    if r > 3:
        return (r, NAME)
    return (NAME, r)
''',
    # state variable of conditionals and loops
    '''def f(a, b, c, xs, o, d):
    NAME = 0
    for i in xs:
        if i > a:
            NAME = NAME + i
            continue
        NAME += 1
    if a > 0:
        NAME = NAME * 2
    return (NAME,)
''',
    # parameter of a nested function and lambda
    '''def f(a, b, c, xs, o, d):
    def inner(NAME):
        if NAME > 1:
            return NAME - 1
        for k in range(NAME):
            if k:
                break
        return NAME
    lam = lambda NAME: NAME + 1 if NAME else 0
    return (inner(a), inner(b), lam(c))
''',
    # free variable / closure and nonlocal
    '''def f(a, b, c, xs, o, d):
    NAME = b
    def inner(p):
        nonlocal NAME
        if p > 0:
            NAME = NAME + p
            return NAME
        return -NAME
    r = inner(a)
    while NAME > 50:
        NAME -= 10
    return (r, NAME)
''',
    # nested function name
    '''def f(a, b, c, xs, o, d):
    def NAME(p):
        if p > 0:
            return p + 1
        return 0
    r = 0
    for i in xs:
        if i == a:
            continue
        r += NAME(i)
    return (r, NAME(a))
''',
    # loop target
    '''def f(a, b, c, xs, o, d):
    r = 0
    for NAME in xs:
        if NAME > a:
            continue
        r += NAME
    for NAME, j in enumerate(xs):
        if j > b:
            break
        r += NAME
    return (r,)
''',
    # module global (read and written)
    '''NAME = 5
def f(a, b, c, xs, o, d):
    global NAME
    r = NAME
    for i in xs:
        if i > a:
            NAME = NAME + 1
            continue
        r += i
    if a > 0:
        return (r, NAME)
    return (NAME,)
''',
    # module global read-only, same name generated inside
    '''NAME = 5
def f(a, b, c, xs, o, d):
    r = 0
    for i in xs:
        if i > a:
            continue
        if i < -5:
            break
        r += i + NAME
    if a > 0:
        return (r, NAME)
    return (NAME,)
''',
    # function under test is a lambda (lscope); the name is a global and an inner lambda parameter
    '''NAME = 5
f = lambda a, b, c, xs, o, d: ((a + NAME) if b else c, H(a), (lambda NAME: NAME + 1 if NAME else 0)(b), a and NAME)
''',
    # with-target and exception name
    '''def f(a, b, c, xs, o, d):
    r = 0
    with CM('w') as NAME:
        for i in xs:
            if i > a:
                continue
            r += i
    try:
        if a > 0:
            raise E1('x')
    except E1 as NAME:
        r += 1
    return (r,)
''',
]


def role_cases(seed):
  names = []
  for v in VOCAB:
    names += [v, v + '_1', v + '_2']
  for ti, tpl in enumerate(ROLE_TEMPLATES):
    for nm in names:
      yield 'C11role/%d/%s' % (ti, nm), grammar.PREAMBLE + tpl.replace('NAME', nm)


def run_slice(spec):
  if spec['kind'] == 'random':
    for i in range(spec['n']):
      cid = 'C11/%d/%d/%d' % (spec['seed'], spec['slice'], i)
      rng = random.Random(cid)
      src, meta = grammar.gen_module(cid, grammar.profile('c11'))
      inputs = grammar.gen_inputs(cid, 4)
      mode = rng.choice(['to_graph', 'to_graph', 'convert', 'via_call'])
      out = judge(cid, src, inputs, mode, [])
      ns = out.pop('names_sample', None)
      if out['verdict'] == 'ok':
        out['sig'] = 'rnd|' + grammar.shape_signature(src) + '|' + str(hash(src) % 1000)
        if i % 10 == 4:
          out['sample'] = {'case': cid, 'generated_names': ns, 'program': stream.body_of(src)[:1200]}
      yield out
  else:
    inputs = grammar.gen_inputs('C11roles/%d' % spec['seed'], 4) + [
        '(1, 2, 3, [1, 2, 7, 9, -6], Obj(0, 0), {"k": 0, "m": 0})', '(0, 0, 0, [], Obj(0, 0), {"k": 0, "m": 0})']
    n = 0
    for cid, src in role_cases(spec['seed']):
      out = judge(cid, src, inputs, 'to_graph', [], reduce=False)
      ns = out.pop('names_sample', None)
      if out['verdict'] == 'ok':
        out['sig'] = cid
        n += 1
        if n % 100 == 1:
          out['sample'] = {'case': cid, 'generated_names': ns, 'program': stream.body_of(src)}
      yield out


def replay(w):
  return judge('replay', w['src'], w['inputs'], w['mode'], w['feats'], reduce=False)


def conclusive(cov, tier):
  want = ['do_return', 'retval', 'break', 'continue', 'fscope', 'lscope', 'get_state', 'set_state', 'if_body',
          'else_body', 'loop_body', 'loop_test', 'extra_test', 'itr']
  missing = [r for r in want if not cov.get('root_' + r)]
  if missing:
    return 'name roots never requested from the namer: %s' % missing
  return None
