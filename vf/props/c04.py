"""C04 — every overloadable construct is routed through its operator.

Static observer: every module the real converter emits (loader.load_source) is
scanned for surviving native constructs. Dynamic observer: programs run on
tracer values that report which frame asked them for a truth value, an
iterator or a call.
"""
import os
import random
import textwrap

from vf import diff
from vf import stream
from vf.gen import grammar
from vf.mon import routing
from vf.props import c17

ID = 'C04'
LEVEL = 'exploration'
RULE = ('(a) enumerated construct x context matrix: {if, while, for, break, continue, early return, and, or, not, conditional '
        'expression (plain, nested in branch, nested in test), chained comparison, call, call in argument} placed in {top level, '
        'for body, while body, both branches, try body, except body, finally body, with body, nested def, lambda body, '
        'comprehension element, operand of another overloaded expression, decorator, default value} x option sets; (b) random '
        'programs of the C01 class run on tracer inputs. Every emitted module is scanned; every tracer truth/iter/call event is '
        'attributed to a frame. non-trivial = at least one module scanned and one tracer event observed; distinct = case id / shape signature')
ASSUMPTIONS = [
    'frames whose file name starts with __autograph_generated_file are generated code; frames under malt/ are operators',
    'exempt contexts (documented): comprehension clauses, with-item expressions, debugger entry calls, print without BUILTIN_FUNCTIONS, assert, `in` tests',
]
MIN_JUDGED = {'quick': 300, 'thorough': 2000}
SLICE_TIMEOUT = {'quick': 1500, 'thorough': 7200}

DEC_SRC = '''
def DEC(v):
    return lambda fn: fn
import io
NULLF = io.StringIO()
# user callables whose names begin with names the converter generates
def fscope_rank(x):
    return T("fr", x)
def lscope_width(x):
    return T("lw", x)
def ag__user(x):
    return T("au", x)
class _NS(object):
    @staticmethod
    def lookup(x):
        return T("nl", x)
fscopes = _NS()
lscopes = _NS()
'''

EXPRS = {
    'and': '(a > 0 and b > 0)',
    'or': '(a > 0 or b > 1)',
    'not': '(not a > 0)',
    'ifexp': '(b if a > 0 else c)',
    'ifexp_nested_branch': '(b if a > 0 else (c if b > 0 else a))',
    'ifexp_nested_test': '(b if (c if a > 0 else b) > 0 else a)',
    'ifexp_nested_body': '((c if b > 0 else a) if a > 0 else b)',
    'chain': '(a < b < c)',
    'call': 'T("x", a)',
    'call_in_arg': 'H2(T("y", a), y=T("z", b))',
    'and_in_call': 'T("q", a > 0 and b > 0)',
    'not_in_ifexp': '(b if not a > 0 else c)',
    'call_fscope_prefixed': 'fscope_rank(a)',
    'call_lscope_prefixed': 'lscope_width(b)',
    'call_ag_prefixed': 'ag__user(c)',
    'call_fscopes_attr': 'fscopes.lookup(a)',
    'call_lscopes_attr': 'lscopes.lookup(b)',
}
STMTS = {
    'if': 'if a > 0:\n    r = r + b\nelse:\n    r = r + c',
    'elif': 'if a > 5:\n    r = r + b\nelif b > 0:\n    r = r + c',
    'while': 'w = a - a\nwhile w < 2:\n    w = w + 1\n    r = r + w',
    'for': 'for e in xs:\n    r = r + e',
    'for_break': 'for e in xs:\n    if e > 1:\n        break\n    r = r + e',
    'for_continue': 'for e in xs:\n    if e > 1:\n        continue\n    r = r + e',
    'while_break': 'w = a - a\nwhile w < 3:\n    w = w + 1\n    if w > b:\n        break',
    'return': 'if a > 1:\n    return r',
    'for_return': 'for e in xs:\n    if e > 1:\n        return e',
}


def _ind(block, n=1):
  return textwrap.indent(block, '    ' * n)


def stmt_contexts(block, jumps_ok=True, returns_ok=True):
  out = {
      'top': block,
      'forbody': 'for q in TrSeq([a, b]):\n' + _ind(block),
      'whilebody': 'k = a - a\nwhile k < 1:\n    k = k + 1\n' + _ind(block),
      'branches': 'if c >= 0:\n' + _ind(block) + '\nelse:\n' + _ind(block),
      'try': 'try:\n' + _ind(block) + '\nexcept E1:\n    pass',
      'except': 'try:\n    raise E1("x")\nexcept E1:\n' + _ind(block),
      'with': 'with CM("w"):\n' + _ind(block),
      'nested_def': 'def inner(a, b, c, xs, r):\n' + _ind(block) + '\n    return r\nr = inner(a, b, c, xs, r)',
  }
  if returns_ok:
    out['finally'] = 'try:\n    r = r + a\nfinally:\n' + _ind(block)
  return out


def matrix_cases():
  for sname, s in sorted(STMTS.items()):
    has_return = 'return' in s
    for cname, body in sorted(stmt_contexts(s, returns_ok=not has_return).items()):
      yield 'stmt/%s/%s' % (sname, cname), body
  for ename, e in sorted(EXPRS.items()):
    base = 'r = T("res", %s)' % e
    for cname, body in sorted(stmt_contexts(base).items()):
      yield 'expr/%s/%s' % (ename, cname), body
    extra = {
        'lambda': 'r = (lambda a, b, c: %s)(a, b, c)' % e,
        'lambda_stored': 'lam = lambda a, b, c: %s\nr = lam(a, b, c)' % e,
        'comp_element': 'r = [%s for q in range(2)]' % e,
        'dictcomp_value': 'r = {q: %s for q in range(2)}' % e,
        'operand_of_ifexp': 'r = (%s) if (%s) else (%s)' % (e, e, e),
        'operand_of_and': 'r = (%s) and (%s)' % (e, e),
        'operand_of_call': 'r = T("o", %s)' % e,
        'if_test': 'if %s:\n    r = r + 1' % e,
        'while_test': 'k = a - a\nwhile k < 1 and %s:\n    k = k + 1' % e,
        'for_iter': 'for e2 in TrSeq([%s]):\n    r = e2' % e,
        'decorator': '@DEC(%s)\ndef inner2():\n    return 1\nr = inner2()' % e,
        'default': 'def inner3(p=%s):\n    return p\nr = inner3()' % e,
        'return_value': 'return %s' % e,
        'subscript': 'r = [a, b][0 if %s else 1]' % e,
        'augassign': 'r += 1 if %s else 2' % e,
        'with_item': 'with CM(str(%s)):\n    r = r + 1' % e,
        'print_arg': 'print(%s, file=NULLF)' % e,
        'print_call_arg': 'print(H2(%s), file=NULLF)' % e,
        # operand positions of every other expression form
        'unary_minus': 'r = -(%s)' % e,
        'unary_plus': 'r = +(%s)' % e,
        'unary_invert': 'r = ~(%s)' % e,
        'unary_nested': 'r = -(+(%s))' % e,
        'binop_left': 'r = (%s) + a' % e,
        'binop_right': 'r = a * (%s)' % e,
        'compare_operands': 'r = (%s) == (%s)' % (e, e),
        'tuple_element': 'r = (a, %s)[1]' % e,
        'list_element': 'r = [%s][0]' % e,
        'dict_value': 'r = {"k": %s}["k"]' % e,
        'set_element': 'r = len({%s})' % e,
        'slice_bound': 'r = [a, b, c][(0 if %s else 1):][0]' % e,
        'fstring': 'r = len(f"{%s}")' % e,
        'starred_arg': 'r = H2(*[%s])' % e,
        'double_starred_arg': 'r = H2(a, **{"y": %s})' % e,
        'walrus': 'r = (w2 := %s)' % e,
        'assert_test': 'assert (%s) or True' % e,
        'raise_arg': 'try:\n    raise E1(str(%s))\nexcept E1:\n    pass' % e,
        'comp_condition': 'r = [q for q in range(2) if %s]' % e,
        'comp_iter': 'r = [q for q in TrSeq([%s])]' % e,
        'genexp_element': 'r = list(%s for q in range(2))' % e,
        'lambda_default': 'r = (lambda p=%s: p)()' % e,
        'attribute_base': 'r = Obj(%s, a).p' % e,
        'call_func_position': 'r = (H2 if %s else H2)(a)' % e,
        'method_receiver': 'r = str(%s).strip()' % e,
    }
    for cname, body in sorted(extra.items()):
      yield 'expr/%s/%s' % (ename, cname), body


def matrix_program(body):
  return 'def f(a, b, c, xs, o, d):\n    r = a - a\n' + _ind(body) + '\n    return r\n'


TR_INPUTS = [
    '(Tr(2), Tr(1), Tr(3), TrSeq([Tr(1), Tr(2), Tr(0)]), Obj(Tr(0), Tr(5)), {"k": Tr(1), "m": Tr(2), "k.m": Tr(0), "k[0]": Tr(0)})',
    '(Tr(0), Tr(0), Tr(0), TrSeq([]), Obj(Tr(1), Tr(0)), {"k": Tr(0), "m": Tr(-1), "k.m": Tr(1), "k[0]": Tr(0)})',
    '(Tr(-1), Tr(4), Tr(1), TrSeq([Tr(5), Tr(1)]), Obj(Tr(2), Tr(2)), {"k": Tr(3), "m": Tr(0), "k.m": Tr(2), "k[0]": Tr(0)})',
]


def plan(tier, seed):
  specs = [{'kind': 'matrix', 'part': k, 'parts': 8, 'seed': seed, 'hashseed': (seed * 16 + k) % 4294967295}
           for k in range(8)]
  n = 25 if tier == 'quick' else 400
  specs += [{'kind': 'random', 'seed': seed, 'slice': k, 'n': n, 'hashseed': (seed * 16 + k + 9) % 4294967295}
            for k in range(8)]
  return specs


def judge(cid, src, mode, feats, inputs=TR_INPUTS, instance=None, keep=False, prior=None):
  """src: module source whose T/values are tracers. With `instance`, the conversion is requested for the function
  object of an already loaded (and already converted) module instance."""
  out = {'case': cid, 'verdict': 'ok', 'counters': {}}
  m = instance if instance is not None else diff.load_instance(src + stream.CALLER_SRC, 'c')
  out['instance'] = m
  probs = []
  cache = {}
  try:
    if prior is not None and instance is None:
      # replay of a case found on the second conversion of one function object
      try:
        stream.convert(m, prior[0], prior[1])
      except Exception:  # pylint:disable=broad-except
        pass
    with c17.Capture() as cap:
      try:
        g, unwrap = stream.convert(m, mode, feats)
      except Exception as e:  # pylint:disable=broad-except
        out['verdict'] = 'skip'
        out['counters'] = {'skipped_conversion_error_c01': 1}
        out['detail'] = '%s: %s' % (type(e).__name__, str(e)[:300])
        return out
      for a in inputs:
        del m.NATIVE[:]
        diff.run(g, m, a, unwrap_convert=unwrap)
        viol, exempt, unknown = routing.classify_native(list(m.NATIVE), cache)
        out['counters']['native_events_exempt'] = out['counters'].get('native_events_exempt', 0) + exempt
        out['counters']['native_events_unclassified'] = out['counters'].get('native_events_unclassified', 0) + unknown
        probs.extend(viol)
      for k, v in m.TRACER_EVENTS.items():
        out['counters']['tracer_%s_events' % k] = v
      bf = 'BUILTIN_FUNCTIONS' in (feats or [])
      # the module the returned function actually lives in (on a cache hit nothing is loaded during this request)
      sources = list(cap.sources)
      fn_obj = g
      for _ in range(4):
        if hasattr(fn_obj, '__wrapped__'):
          fn_obj = fn_obj.__wrapped__
      code_file = getattr(getattr(fn_obj, '__code__', None), 'co_filename', '')
      if os.path.basename(code_file).startswith('__autograph_generated_file') and code_file not in [f_ for f_, _ in sources]:
        try:
          with open(code_file) as fh:
            sources.append((code_file, fh.read()))
          out['counters']['modules_scanned_from_cache_hit'] = 1
        except OSError:
          pass
      for fn, text in sources:
        p, counts = routing.scan_module(text, bf)
        probs.extend(p)
        for k, v in counts.items():
          out['counters'][k] = out['counters'].get(k, 0) + v
      out['counters']['modules_scanned'] = len(cap.sources)
  finally:
    if not keep:
      diff.unload(m)
      out.pop('instance', None)
  if probs:
    out['verdict'] = 'violation'
    uniq = []
    for p in probs:
      if p not in uniq:
        uniq.append(p)
    out['detail'] = '; '.join(uniq[:4]) + '\n--- program ---\n' + src[src.index('def DEC'):][:3000]
    out['witness'] = {'src': src, 'mode': mode, 'feats': feats, 'prior': list(prior) if prior else None}
    return out
  ev = sum(out['counters'].get('tracer_%s_events' % k, 0) for k in ('bool', 'iter', 'call'))
  out['nontrivial'] = out['counters'].get('modules_scanned', 0) > 0 and ev > 0
  return out


def header():
  return grammar.PREAMBLE + routing.TRACER_SRC + DEC_SRC


def run_slice(spec):
  if spec['kind'] == 'matrix':
    opts = [('to_graph', []), ('to_graph', ['BUILTIN_FUNCTIONS']), ('convert', ['EQUALITY_OPERATORS']),
            ('to_graph_nonrec', []), ('via_call', ['BUILTIN_FUNCTIONS', 'EQUALITY_OPERATORS'])]
    for idx, (name, body) in enumerate(matrix_cases()):
      if idx % spec['parts'] != spec['part']:
        continue
      rng = random.Random('%s/%d' % (name, spec['seed']))
      inst = None
      seq = [opts[0]] + rng.sample(opts[1:], 1)
      if idx % 2:
        seq.reverse()
      # both option sets are requested for the same function object, one after the other
      for pos, (mode, feats) in enumerate(seq):
        cid = 'C04m/%s/%s/%s' % (name, mode, '+'.join(feats))
        out = judge(cid, header() + matrix_program(body), mode, feats, instance=inst, keep=(pos == 0),
                    prior=seq[0] if pos else None)
        inst = out.pop('instance', None)
        if out['verdict'] == 'ok':
          out['sig'] = cid
          out['counters']['second_conversion_of_same_function'] = pos
          if idx % 40 == 0:
            out['sample'] = {'case': cid, 'program': matrix_program(body),
                             'tracer_events': {k: v for k, v in out['counters'].items() if k.startswith('tracer_')}}
        if out['verdict'] == 'skip' and inst is not None and pos == 0:
          diff.unload(inst)
          inst = None
        yield out
  else:
    for i in range(spec['n']):
      cid = 'C04/%d/%d/%d' % (spec['seed'], spec['slice'], i)
      rng = random.Random(cid)
      src, meta = grammar.gen_module(cid, grammar.profile('c01safe'))
      body = stream.body_of(src)
      mode = rng.choice(['to_graph', 'to_graph', 'convert', 'via_call', 'to_graph_nonrec'])
      feats = rng.choice(stream.FEATURE_SETS)
      out = judge(cid, header() + body, mode, feats)
      if out['verdict'] == 'ok':
        out['sig'] = mode + '|' + grammar.shape_signature(src)
      yield out


def replay(w):
  return judge('replay', w['src'], w['mode'], w['feats'], prior=tuple(w['prior']) if w.get('prior') else None)


def conclusive(cov, tier):
  if cov.get('tracer_bool_events', 0) == 0 or cov.get('tracer_iter_events', 0) == 0 or cov.get('tracer_call_events', 0) == 0:
    return 'a tracer event kind was never observed'
  if cov.get('modules_scanned', 0) == 0:
    return 'no emitted module scanned'
  return None
