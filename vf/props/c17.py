"""C17 — generated code is a well-formed tree that loads as what to_code shows.

The tree returned by the real PyToPy.transform_ast is captured (wrapper on the
transpiler instance), as is every source text handed to loader.load_source;
the oracle is CPython's own compiler/parser (compile, ast.parse, ast.unparse
through malt's parser.unparse) plus a position-driven context walker.
"""
import ast
import inspect
import random
import textwrap

from vf import diff
from vf import stream
from vf.gen import grammar

ID = 'C17'
LEVEL = 'exploration'
RULE = ('programs of the C01 class plus unusual literals/expressions (profile c17: negative numbers, nested f-strings, tuple '
        'subscripts, starred, walrus, chained comparisons, lambdas in defaults, slices, set/dict displays) converted under a '
        'random option set; each transform_ast result (top-level function and every recursively converted callee) is one '
        'checked tree; non-trivial = >=1 tree captured and all six checks ran; distinct = program shape signature x option set')
ASSUMPTIONS = [
    'ast operator/context singletons (ast.Load() etc.) are shared by the interpreter and are excluded from the node-sharing check',
    'fields whose name starts with "__" (malt annotations) are ignored when comparing trees',
]
MIN_JUDGED = {'quick': 300, 'thorough': 3000}
SLICE_TIMEOUT = {'quick': 1500, 'thorough': 7200}

SINGLETONS = (ast.expr_context, ast.operator, ast.boolop, ast.cmpop, ast.unaryop)


def plan(tier, seed):
  n = 40 if tier == 'quick' else 500
  return [{'kind': 'random', 'seed': seed, 'slice': k, 'n': n, 'hashseed': (seed * 16 + k) % 4294967295}
          for k in range(16)]


# ---- tree checks ------------------------------------------------------------
def shared_nodes(tree):
  seen = {}
  dup = []
  for n in ast.walk(tree):
    if isinstance(n, SINGLETONS):
      continue
    if id(n) in seen:
      dup.append(n)
    seen[id(n)] = n
  return dup


def _fields(n):
  return [(f, getattr(n, f, None)) for f in n._fields if not f.startswith('__')]


def ctx_errors(tree):
  """Every expression context must match the node's syntactic position."""
  errs = []

  def expect(n, want):
    # n sits in a position that demands context `want` (Load/Store/Del)
    if n is None:
      return
    if isinstance(n, (ast.Name, ast.Attribute, ast.Subscript, ast.Starred, ast.List, ast.Tuple)):
      got = type(n.ctx).__name__
      if got != want:
        errs.append('%s at line %s has ctx %s, position requires %s' % (
            type(n).__name__ + (':' + n.id if isinstance(n, ast.Name) else ''), getattr(n, 'lineno', '?'), got, want))
      if isinstance(n, (ast.List, ast.Tuple)):
        for e in n.elts:
          expect(e, want)
        return
      if isinstance(n, ast.Starred):
        expect(n.value, want)
        return
      if isinstance(n, ast.Attribute):
        expect(n.value, 'Load')
        return
      if isinstance(n, ast.Subscript):
        expect(n.value, 'Load')
        expect(n.slice, 'Load')
        return
      return
    visit(n)

  def visit(n):
    if isinstance(n, ast.Assign):
      for t in n.targets:
        expect(t, 'Store')
      expect(n.value, 'Load')
    elif isinstance(n, (ast.AugAssign, ast.AnnAssign)):
      expect(n.target, 'Store')
      if isinstance(n, ast.AnnAssign):
        expect(n.annotation, 'Load')
      expect(n.value, 'Load')
    elif isinstance(n, (ast.For, ast.AsyncFor)):
      expect(n.target, 'Store')
      expect(n.iter, 'Load')
      for s in n.body + n.orelse:
        visit(s)
    elif isinstance(n, ast.comprehension):
      expect(n.target, 'Store')
      expect(n.iter, 'Load')
      for c in n.ifs:
        expect(c, 'Load')
    elif isinstance(n, ast.withitem):
      expect(n.context_expr, 'Load')
      expect(n.optional_vars, 'Store')
    elif isinstance(n, ast.Delete):
      for t in n.targets:
        expect(t, 'Del')
    elif isinstance(n, ast.NamedExpr):
      expect(n.target, 'Store')
      expect(n.value, 'Load')
    else:
      for f, v in _fields(n):
        if isinstance(v, ast.AST):
          if isinstance(v, ast.expr):
            expect(v, 'Load')
          elif not isinstance(v, SINGLETONS):
            visit(v)
        elif isinstance(v, list):
          for e in v:
            if isinstance(e, ast.expr):
              expect(e, 'Load')
            elif isinstance(e, ast.AST) and not isinstance(e, SINGLETONS):
              visit(e)

  visit(tree)
  return errs


def dump(n):
  """ast.dump ignoring malt annotation fields and positions."""
  if isinstance(n, ast.AST):
    return '%s(%s)' % (type(n).__name__, ', '.join('%s=%s' % (f, dump(v)) for f, v in _fields(n)))
  if isinstance(n, list):
    return '[%s]' % ', '.join(dump(x) for x in n)
  return repr(n)


def first_diff(a, b):
  n = 0
  while n < min(len(a), len(b)) and a[n] == b[n]:
    n += 1
  return '...%s  <<tree | reparsed>>  ...%s' % (a[max(0, n - 60):n + 80], b[max(0, n - 60):n + 80])


def check_tree(tree):
  """Returns (list of problems, number of nodes)."""
  from malt.pyct import parser
  probs = []
  dup = shared_nodes(tree)
  if dup:
    probs.append('node object occurs twice in the tree: %s' % ', '.join(
        '%s@line%s %s' % (type(d).__name__, getattr(d, 'lineno', '?'), dump(d)[:80]) for d in dup[:3]))
  ce = ctx_errors(tree)
  if ce:
    probs.append('expression context does not match position: ' + '; '.join(ce[:3]))
  text = None
  try:
    text = parser.unparse(tree, include_encoding_marker=False)
  except Exception as e:  # pylint:disable=broad-except
    probs.append('parser.unparse failed: %r' % (e,))
  # The tree of a closure refers to its free variables; like the loader, give
  # it an enclosing function that binds them.
  free = []
  for _ in range(12):
    try:
      inner = [ast.Assign(targets=[ast.Name(id=v, ctx=ast.Store())], value=ast.Constant(value=None)) for v in free]
      wrapper = ast.FunctionDef(
          name='c17_outer', args=ast.arguments(posonlyargs=[], args=[], vararg=None, kwonlyargs=[], kw_defaults=[],
                                               kwarg=None, defaults=[]),
          body=inner + ([tree] if not isinstance(tree, list) else list(tree)), decorator_list=[], returns=None,
          type_comment=None, type_params=[])
      mod = ast.Module(body=[wrapper], type_ignores=[])
      ast.fix_missing_locations(mod)
      compile(mod, '<c17-tree>', 'exec')
      break
    except SyntaxError as e:
      msg = str(e)
      if "no binding for nonlocal '" in msg:
        v = msg.split("no binding for nonlocal '")[1].split("'")[0]
        if v not in free:
          free.append(v)
          continue
      probs.append('compile(tree) failed: %s: %s' % (type(e).__name__, e))
      break
    except Exception as e:  # pylint:disable=broad-except
      probs.append('compile(tree) failed: %s: %s' % (type(e).__name__, e))
      break
  if text is not None:
    try:
      re = ast.parse(text).body
      want = dump(re[0]) if len(re) == 1 else dump(re)
      got = dump(tree)
      if want != got:
        probs.append('re-parsing the unparsed text gives a different tree: ' + first_diff(got, want))
    except SyntaxError as e:
      probs.append('unparsed text does not parse: %s' % e)
  n = sum(1 for _ in ast.walk(tree))
  return probs, n


# ---- capture -----------------------------------------------------------------
class Capture(object):

  def __init__(self):
    self.trees = []
    self.sources = []

  def __enter__(self):
    from malt.impl import api
    from malt.pyct import loader
    self.api, self.loader = api, loader
    tr = api._TRANSPILER
    if not hasattr(tr, 'transform_ast') or not hasattr(loader, 'load_source'):
      raise LookupError('hook point missing')
    real_t = type(tr).transform_ast
    real_l = loader.load_source
    self._real_l = real_l

    def transform_ast(node, ctx):
      out = real_t(tr, node, ctx)
      self.trees.append(out)
      return out

    def load_source(source, delete_on_exit):
      m, fn = real_l(source, delete_on_exit)
      self.sources.append((fn, source))
      return m, fn

    tr.transform_ast = transform_ast
    loader.load_source = load_source
    return self

  def __exit__(self, *a):
    try:
      del self.api._TRANSPILER.transform_ast
    except AttributeError:
      pass
    self.loader.load_source = self._real_l


WRAPS_SRC = '''
import functools as _functools
def _vf_deco(fn):
    @_functools.wraps(fn)
    def wrapper(*a, **k):
        r_ = 0
        for i_ in range(1):
            r_ += 1
        return fn(*a, **k)
    return wrapper
fw = _vf_deco(f)
'''


def judge(cid, src, inputs, feats, recursive):
  import malt
  out = {'case': cid, 'verdict': 'ok', 'counters': {}}
  mc = diff.load_instance(src + stream.CALLER_SRC + WRAPS_SRC, 'c')
  fs = stream.features(feats)
  probs = []
  try:
    with Capture() as cap:
      try:
        g = malt.to_graph(mc.f, recursive=recursive, experimental_optional_features=fs)
      except Exception as e:  # pylint:disable=broad-except
        msg = '%s: %s' % (type(e).__name__, str(e)[:300])
        if 'Inconsistent ASTs' in msg:
          probs.append('conversion failed on a tree/text inconsistency: ' + msg)
        else:
          out['verdict'] = 'skip'
          out['counters'] = {'skipped_conversion_error_c01': 1}
          out['detail'] = msg
          return out
      if not probs:
        # run it so that recursively converted callees are transformed as well
        for a in inputs[:3]:
          diff.run(g, mc, a)
        # to_code vs the module actually loaded for to_graph; also for a functools.wraps wrapper around f (it
        # borrows f's name, qualname, docstring and carries __wrapped__)
        targets = [(mc.f, g)]
        try:
          targets.append((mc.fw, malt.to_graph(mc.fw, recursive=recursive, experimental_optional_features=fs)))
          out['counters']['wraps_wrappers_converted'] = 1
        except Exception as e:  # pylint:disable=broad-except
          out['counters']['wraps_wrapper_not_convertible'] = 1
      for subject, g in (targets if not probs else []):
        code_text = malt.to_code(subject, recursive=recursive, experimental_optional_features=fs)
        fname = g.__code__.co_filename
        loaded = [s for fn, s in cap.sources if fn == fname]
        if len(loaded) != 1:
          probs.append('module file of to_graph(f) was not loaded exactly once through loader.load_source (%d)' % len(loaded))
        else:
          with open(fname) as fh:
            on_disk = fh.read()
          if on_disk != loaded[0]:
            probs.append('file on disk differs from the source handed to load_source')
          tree = ast.parse(loaded[0])
          defs = [n for n in ast.walk(tree) if isinstance(n, ast.FunctionDef) and n.name == g.__code__.co_name]
          if len(defs) != 1:
            probs.append('loaded module defines %r %d times' % (g.__code__.co_name, len(defs)))
          else:
            seg = ast.get_source_segment(loaded[0], defs[0], padded=True)
            if textwrap.dedent(seg).strip() != code_text.strip():
              probs.append('to_code(f) is not the text of the function in the loaded module: ' +
                           first_diff(code_text.strip(), textwrap.dedent(seg).strip()))
            out['counters']['to_code_compared'] = 1
          if inspect.getsourcefile(g) != fname:
            probs.append('inspect source file of converted function is %r, code file %r' % (inspect.getsourcefile(g), fname))
      if not probs or True:
        ntrees = 0
        nnodes = 0
        for t in cap.trees:
          p, n = check_tree(t)
          ntrees += 1
          nnodes += n
          probs.extend(p)
        out['counters']['trees_checked'] = ntrees
        out['counters']['tree_nodes_checked'] = nnodes
        out['counters']['modules_loaded'] = len(cap.sources)
  finally:
    diff.unload(mc)
  if probs:
    out['verdict'] = 'violation'
    out['detail'] = '; '.join(probs[:3]) + '\n--- program ---\n' + stream.body_of(src)
    out['witness'] = {'src': src, 'inputs': inputs, 'feats': feats, 'recursive': recursive}
    return out
  out['nontrivial'] = out['counters'].get('trees_checked', 0) > 0
  out['sig'] = '%s|%s|%s' % (feats, recursive, grammar.shape_signature(src))
  return out


def run_slice(spec):
  for i in range(spec['n']):
    cid = 'C17/%d/%d/%d' % (spec['seed'], spec['slice'], i)
    rng = random.Random(cid)
    src, meta = grammar.gen_module(cid, grammar.profile('c17'))
    inputs = grammar.gen_inputs(cid, 3)
    feats = rng.choice(stream.FEATURE_SETS)
    rec = rng.random() < 0.8
    out = judge(cid, src, inputs, feats, rec)
    if out['verdict'] == 'ok' and i % 10 == 1:
      out['sample'] = {'case': cid, 'features': feats, 'recursive': rec, 'trees': out['counters'].get('trees_checked'),
                       'program': stream.body_of(src)[:1200]}
    yield out


def replay(w):
  return judge('replay', w['src'], w['inputs'], w['feats'], w['recursive'])


def conclusive(cov, tier):
  if cov.get('trees_checked', 0) < 300 or cov.get('to_code_compared', 0) == 0:
    return 'too few trees captured (%s)' % cov.get('trees_checked', 0)
  return None
