"""C20 — options survive embedding in generated code and key the caches.

Exhaustive enumeration of the 2^3 x 2^7 option values, each in every spelling
of `optional_features`; the oracle is plain field arithmetic on the four
documented fields plus, for the executable subset, what the *running*
converted function reports through its FunctionScope.
"""
import itertools
import os
import sys

ID = 'C20'
LEVEL = 'exploration'
RULE = ('all 1024 = 2^3 flag x 2^7 feature-subset option values, each built through every '
        'applicable spelling (None / single Feature / tuple / list / set / frozenset); '
        'a case is one option value (kind=value), one row of the 1024x1024 ==/hash matrix '
        '(kind=row), one conversion executed under an option value (kind=exec) or one function converted under two option values that differ in one field, in sequence (kind=pair); distinct = '
        'distinct (kind, option tuple); non-trivial = every one whose monitor ran at least one comparison')
ASSUMPTIONS = [
    'Feature enumeration has the 7 members listed in converter.Feature (checked at run time)',
    'executable subset excludes NAME_SCOPES/AUTO_CONTROL_DEPS/ALL, which FunctionScope rejects by assertion',
]
MIN_JUDGED = {'quick': 1024, 'thorough': 1024}
SLICE_TIMEOUT = {'quick': 900, 'thorough': 1800}


def _features():
  from malt.core import converter
  return list(converter.Feature.__members__.values())


def _all_values():
  feats = _features()
  vals = []
  for r, u, i in itertools.product([False, True], repeat=3):
    for mask in range(1 << len(feats)):
      fs = tuple(f for k, f in enumerate(feats) if mask >> k & 1)
      vals.append((r, u, i, fs))
  return vals


def _spellings(fs):
  out = [('tuple', tuple(fs)), ('list', list(fs)), ('set', set(fs)),
         ('frozenset', frozenset(fs)), ('reversed', tuple(reversed(fs)))]
  if len(fs) == 0:
    out.append(('None', None))
  if len(fs) == 1:
    out.append(('single', fs[0]))
  return out


def plan(tier, seed):
  n = 16
  specs = []
  for k in range(n):
    specs.append({'kind': 'values', 'part': k, 'parts': n, 'hashseed': seed * 16 + k})
  for k in range(n):
    specs.append({'kind': 'rows', 'part': k, 'parts': n, 'hashseed': seed * 16 + k})
  for k in range(n):
    specs.append({'kind': 'exec', 'part': k, 'parts': n, 'hashseed': seed * 16 + k,
                  'tier': tier})
  return specs


def _mk(vals):
  from malt.core import converter
  r, u, i, fs = vals
  return converter.ConversionOptions(
      recursive=r, user_requested=u, internal_convert_user_code=i,
      optional_features=fs)


def _key(vals):
  r, u, i, fs = vals
  return [r, u, i, sorted(f.name for f in fs)]


def _viol(case, detail, witness):
  return {'case': case, 'verdict': 'violation', 'detail': detail,
          'witness': witness, 'sig': case, 'nontrivial': True}


def check_value(vals):
  """Returns (n_comparisons, violation_detail_or_None)."""
  from malt.core import converter
  from malt.impl import api
  from malt.pyct import parser
  ag = api._TRANSPILER.get_extra_locals()['ag__']
  r, u, i, fs = vals
  feats = _features()
  n = 0
  base = _mk(vals)
  for name, sp in _spellings(fs):
    o = converter.ConversionOptions(
        recursive=r, user_requested=u, internal_convert_user_code=i,
        optional_features=sp)
    n += 1
    if not (o == base) or hash(o) != hash(base):
      return n, 'spelling %s of the same feature set gives a different/unequal-hash value' % name
    if (o.recursive, o.user_requested, o.internal_convert_user_code) != (r, u, i):
      return n, 'flags not stored'
    if set(o.optional_features) != set(fs):
      return n, 'feature set not stored for spelling %s' % name
    # round trip through the embedded source form
    src = parser.unparse(o.to_ast(), include_encoding_marker=False).strip()
    try:
      back = eval(src, {'ag__': ag})  # pylint:disable=eval-used
    except Exception as e:  # pylint:disable=broad-except
      return n, 'embedded form %r does not evaluate: %r' % (src, e)
    n += 1
    if not isinstance(back, converter.ConversionOptions):
      return n, 'embedded form %r evaluates to %r' % (src, type(back))
    if (back.recursive, back.user_requested, back.internal_convert_user_code,
        set(back.optional_features)) != (r, u, i, set(fs)):
      return n, 'embedded form %r evaluates to different fields %r' % (src, back.as_tuple())
    if not (back == o) or hash(back) != hash(o):
      return n, 'embedded form %r not equal / unequal hash' % src
    # call options
    c = o.call_options()
    n += 1
    if (c.recursive is not r and c.recursive != r) or c.user_requested is not False \
        or c.internal_convert_user_code != r or set(c.optional_features) != set(fs):
      return n, 'call_options() = %r' % (c.as_tuple(),)
    # values derived from an object that has already been hashed / compared / embedded / used as a key
    # must be indistinguishable from freshly built equal values (caches are keyed by them)
    import copy
    used = converter.ConversionOptions(recursive=r, user_requested=u, internal_convert_user_code=i, optional_features=sp)
    table = {used: 'parent'}
    hash(used)
    used == base  # pylint:disable=pointless-statement
    used.to_ast()
    fresh_call = converter.ConversionOptions(recursive=r, user_requested=False, internal_convert_user_code=r,
                                             optional_features=fs)
    for how, derived, fresh in (('call_options() of a used value', used.call_options(), fresh_call),
                                ('copy.copy of a used value', copy.copy(used), base),
                                ('copy.deepcopy of a used value', copy.deepcopy(used), base),
                                ('call_options() of a copy', copy.copy(used).call_options(), fresh_call)):
      n += 1
      if not (derived == fresh) or not (fresh == derived):
        return n, '%s is not equal to the freshly built value %r' % (how, fresh.as_tuple())
      if hash(derived) != hash(fresh):
        return n, '%s equals the freshly built value %r but hashes differently' % (how, fresh.as_tuple())
      if {fresh: 1}.get(derived) != 1 or derived not in {fresh}:
        return n, '%s is not found under the freshly built equal key' % how
    if table.get(base) != 'parent':
      return n, 'a used value is not found under an equal key'
    # uses
    for f in feats:
      n += 1
      want = (f in fs) or (converter.Feature.ALL in fs)
      if bool(o.uses(f)) != want:
        return n, 'uses(%s) = %r, want %r' % (f.name, o.uses(f), want)
  return n, None


def check_row(vals, allvals):
  a = _mk(vals)
  n = 0
  ha = hash(a)
  for other in allvals:
    b = _mk(other)
    same = (vals[0], vals[1], vals[2], frozenset(vals[3])) == (
        other[0], other[1], other[2], frozenset(other[3]))
    n += 1
    eq = (a == b)
    if bool(eq) != same:
      return n, '%r == %r gives %r' % (_key(vals), _key(other), eq)
    if (a != b) == same:
      return n, '%r != %r gives %r' % (_key(vals), _key(other), a != b)
    if same and hash(b) != ha:
      return n, 'equal values hash differently: %r' % (_key(vals),)
  return n, None


_EXEC_SRC = '''
def target(x):
  def inner(y):
    return y + 1
  if x > 0:
    x = inner(x)
  return x
'''


class _Rec(object):
  scopes = []


def check_exec(vals, scratch, idx):
  """Converts and runs a function under the options; the FunctionScope objects
  created by the running generated code report the embedded options."""
  from malt.core import converter
  from malt.impl import api
  from malt.operators import function_wrappers
  import importlib.util
  o = _mk(vals)
  path = os.path.join(scratch, 'c20exec_%d.py' % idx)
  with open(path, 'w') as f:
    f.write(_EXEC_SRC)
  spec = importlib.util.spec_from_file_location('c20exec_%d' % idx, path)
  m = importlib.util.module_from_spec(spec)
  sys.modules[spec.name] = m
  spec.loader.exec_module(m)

  ag = api._TRANSPILER.get_extra_locals()['ag__']
  real = function_wrappers.FunctionScope
  seen = []

  class Probe(real):

    def __init__(self, function_name, scope_name, options):
      seen.append((function_name, options))
      real.__init__(self, function_name, scope_name, options)
      callopts.append((function_name, options, getattr(self, 'callopts', None)))

  callopts = []
  ag.FunctionScope = Probe
  try:
    g, _, _ = api._TRANSPILER.transform(m.target, converter.ProgramContext(options=o))
    res = g(3)
  finally:
    ag.FunctionScope = real
    sys.modules.pop(spec.name, None)
  if res != 4:
    return 1, 'converted function returned %r' % (res,)
  for fname, opts, co in callopts:
    # the options a scope hands to the calls made inside it are the call options of the embedded value
    if co is None or not (co == opts.call_options()) or hash(co) != hash(opts.call_options()):
      return 1, 'scope of %s embeds %r but calls out with %r, call_options() is %r' % (
          fname, opts.as_tuple(), co.as_tuple() if co is not None else None, opts.call_options().as_tuple())
  names = [n for n, _ in seen]
  if names != ['target', 'inner']:
    return 1, 'function scopes seen: %r' % (names,)
  if not (seen[0][1] == o) or hash(seen[0][1]) != hash(o):
    return 2, 'top-level scope reports %r, converted under %r' % (seen[0][1].as_tuple(), o.as_tuple())
  want = (vals[0], False, vals[0], frozenset(vals[3]))
  got = seen[1][1].as_tuple()
  if (got[0], got[1], got[2], frozenset(got[3])) != want:
    return 2, 'nested scope reports %r, want call options %r' % (got, want)
  return 2, None


def check_exec_pair(v1, v2, scratch, idx):
  """One function object converted under two option values one after the other (they differ in one field): each
  conversion must embed its own options, whatever was converted before."""
  from malt.core import converter
  from malt.impl import api
  from malt.operators import function_wrappers
  import importlib.util
  path = os.path.join(scratch, 'c20pair_%d.py' % idx)
  with open(path, 'w') as f:
    f.write(_EXEC_SRC)
  spec = importlib.util.spec_from_file_location('c20pair_%d' % idx, path)
  m = importlib.util.module_from_spec(spec)
  sys.modules[spec.name] = m
  spec.loader.exec_module(m)
  ag = api._TRANSPILER.get_extra_locals()['ag__']
  real = function_wrappers.FunctionScope
  seen = []

  class Probe(real):

    def __init__(self, function_name, scope_name, options):
      seen.append((function_name, options))
      real.__init__(self, function_name, scope_name, options)

  ag.FunctionScope = Probe
  n = 0
  try:
    o1, o2 = _mk(v1), _mk(v2)
    g1, _, _ = api._TRANSPILER.transform(m.target, converter.ProgramContext(options=o1))
    g2, _, _ = api._TRANSPILER.transform(m.target, converter.ProgramContext(options=o2))
    for g, o, label in ((g2, o2, 'second'), (g1, o1, 'first'), (g2, o2, 'second, again')):
      del seen[:]
      if g(3) != 4:
        return n, 'converted function returned a wrong value'
      n += 1
      if not seen or seen[0][0] != 'target':
        return n, 'no function scope seen'
      if not (seen[0][1] == o) or hash(seen[0][1]) != hash(o):
        return n, 'the %s conversion was requested with %r but its scope reports %r (the other conversion used %r)' % (
            label, o.as_tuple(), seen[0][1].as_tuple(), (o1 if o is o2 else o2).as_tuple())
  finally:
    ag.FunctionScope = real
    sys.modules.pop(spec.name, None)
  return n, None


def neighbours(v, feats_ok):
  r, u, i, fs = v
  out = [(not r, u, i, fs), (r, not u, i, fs), (r, u, not i, fs)]
  for f in feats_ok:
    out.append((r, u, i, tuple(x for x in fs if x is not f) if f in fs else tuple(fs) + (f,)))
  return out


def run_slice(spec):
  from malt.core import converter
  allvals = _all_values()
  F = converter.Feature
  if len(_features()) != 7:
    yield {'case': 'features', 'verdict': 'inconclusive',
           'detail': 'Feature enumeration has %d members' % len(_features())}
    return
  mine = [v for k, v in enumerate(allvals) if k % spec['parts'] == spec['part']]
  scratch = os.environ.get('VERIF_SCRATCH', '.')
  if spec['kind'] == 'values':
    for v in mine:
      n, bad = check_value(v)
      case = 'value/%s' % _key(v)
      if bad:
        yield _viol(case, bad, {'kind': 'value', 'vals': _key(v)})
      else:
        yield {'case': case, 'verdict': 'ok', 'sig': case, 'nontrivial': n > 0,
               'counters': {'value_comparisons': n},
               'sample': {'kind': 'value', 'options': _key(v), 'comparisons': n} if v is mine[5] else None}
  elif spec['kind'] == 'rows':
    for v in mine:
      n, bad = check_row(v, allvals)
      case = 'row/%s' % _key(v)
      if bad:
        yield _viol(case, bad, {'kind': 'row', 'vals': _key(v)})
      else:
        yield {'case': case, 'verdict': 'ok', 'sig': case, 'nontrivial': n > 0,
               'counters': {'pair_comparisons': n},
               'sample': {'kind': 'row', 'options': _key(v), 'pairs': n} if v is mine[7] else None}
  else:
    bad_feats = {F.NAME_SCOPES, F.AUTO_CONTROL_DEPS, F.ALL}
    k = 0
    for v in mine:
      if bad_feats & set(v[3]):
        continue
      k += 1
      n, bad = check_exec(v, scratch, k)
      case = 'exec/%s' % _key(v)
      if bad:
        yield _viol(case, bad, {'kind': 'exec', 'vals': _key(v)})
      else:
        yield {'case': case, 'verdict': 'ok', 'sig': case, 'nontrivial': True,
               'counters': {'exec_scope_reports': n, 'exec_conversions': 1},
               'sample': {'kind': 'exec', 'options': _key(v), 'scopes': ['target', 'inner']} if k == 2 else None}
      feats_ok = [f for f in _features() if f not in bad_feats]
      for j, v2 in enumerate(neighbours(v, feats_ok)):
        n, bad = check_exec_pair(v, v2, scratch, k * 16 + j)
        case = 'pair/%s/%s' % (_key(v), _key(v2))
        if bad:
          yield _viol(case, bad, {'kind': 'pair', 'vals': _key(v), 'vals2': _key(v2)})
        else:
          yield {'case': case, 'verdict': 'ok', 'sig': case, 'nontrivial': True,
                 'counters': {'pair_scope_reports': n, 'exec_conversions': 2}}


def replay(w):
  from malt.core import converter
  F = converter.Feature
  r, u, i, names = w['vals']
  vals = (r, u, i, tuple(F[n] for n in names))
  if w['kind'] == 'pair':
    r2, u2, i2, names2 = w['vals2']
    n, bad = check_exec_pair(vals, (r2, u2, i2, tuple(F[n] for n in names2)), os.environ.get('VERIF_SCRATCH', '.'), 0)
  elif w['kind'] == 'value':
    n, bad = check_value(vals)
  elif w['kind'] == 'row':
    n, bad = check_row(vals, _all_values())
  else:
    n, bad = check_exec(vals, os.environ.get('VERIF_SCRATCH', '.'), 0)
  if bad:
    return _viol('replay', bad, w)
  return {'case': 'replay', 'verdict': 'ok'}


def finalize(cov, results, tier):
  cov['exhaustive'] = True
  cov['option_values'] = 1024
