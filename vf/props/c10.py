"""C10 — conversion cache is coherent, converts once, and is thread-safe.

Concurrent request histories against the real transpiler cache. Reference
model for every reply: the requesting function object's own native behaviour
(native execution is deterministic), its __globals__ and its cells. The
number of source transformations per (code object, options) is counted by a
wrapper around GenericTranspiler.transform_function (own lock; adds no
synchronisation to the code it observes).
"""
import collections
import gc
import importlib
import inspect
import os
import random
import sys
import threading
import time
import types

from vf import diff

ID = 'C10'
LEVEL = 'exploration'
RULE = ('histories of to_graph / convert-wrapper / converted_call requests over a pool of functions (closures made by one '
        'factory sharing a code object with different cells and defaults, FunctionType clones over another globals dict, '
        'a function redefined from a rewritten module file, ephemeral functions collected mid-run) x 6 option sets, issued by '
        '1..32 threads behind a barrier with switch intervals 5e-3/1e-4/1e-6 (thorough: LINE-event yield injection in '
        'transpiler.py/cache.py); a case = one history; non-trivial = >= 2 threads or >= 2 option sets and every reply judged; '
        'distinct = distinct order in which threads entered the source transformation (cache-miss critical section) + thread count')
ASSUMPTIONS = ['native execution of the requesting function object is the reference for every reply',
               'transform counts are kept for pool functions that stay alive for the whole history (ids are not reused)']
MIN_JUDGED = {'quick': 30, 'thorough': 300}
SLICE_TIMEOUT = {'quick': 1500, 'thorough': 7200}

POOL_SRC = '''\
G = %(G)d
def make(k, d):
    def f(x, y=d):
        r = 0
        for i in range(x):
            if i %% 2 == 0:
                r += k
            elif i == y:
                r -= 1
        if r == k:
            r += G
        return (r, k, y, G)
    return f
def plain(x):
    t = 0
    while t < x:
        t += 2
        if t == 4:
            break
    return (t, G, %(salt)d)
def caller(fn, x):
    return fn(x)
'''

OPTION_SETS = [
    (True, ()), (False, ()), (True, ('EQUALITY_OPERATORS',)), (False, ('EQUALITY_OPERATORS',)),
    (True, ('BUILTIN_FUNCTIONS',)), (True, ('BUILTIN_FUNCTIONS', 'EQUALITY_OPERATORS')),
]
PROBES = [0, 1, 3, 5]


class TransformCounter(object):

  def __init__(self):
    self.lock = threading.Lock()
    self.counts = collections.Counter()
    self.order = []
    self.real = None

  def __enter__(self):
    from malt.pyct import transpiler
    self.tr = transpiler
    if not hasattr(transpiler.GenericTranspiler, 'transform_function'):
      raise LookupError('hook point missing')
    self.real = transpiler.GenericTranspiler.transform_function
    mon = self

    def transform_function(tr, fn, user_context):
      key = (id(fn.__code__), user_context.options.as_tuple() if hasattr(user_context, 'options') else None)
      with mon.lock:
        mon.counts[key] += 1
        mon.order.append(getattr(threading.current_thread(), 'vf_idx', -1))
      return mon.real(tr, fn, user_context)

    transpiler.GenericTranspiler.transform_function = transform_function
    return self

  def __exit__(self, *a):
    self.tr.GenericTranspiler.transform_function = self.real


class YieldInjector(object):
  """sys.monitoring LINE events inside transpiler.py / cache.py call sleep(0)."""

  def __init__(self, rng, prob):
    self.rng = rng
    self.prob = prob
    self.injected = 0
    self.codes = []

  def __enter__(self):
    from malt.pyct import transpiler, cache
    mon = sys.monitoring
    self.tool = 4
    try:
      mon.use_tool_id(self.tool, 'vf-c10')
    except ValueError:
      pass
    # every function and method defined in the two modules that hold the cache logic, whatever they are called
    import types
    for mod in (transpiler, cache):
      for obj in list(vars(mod).values()):
        members = [obj] if isinstance(obj, types.FunctionType) else (
            list(vars(obj).values()) if isinstance(obj, type) and obj.__module__ == mod.__name__ else [])
        for f in members:
          f = getattr(f, '__func__', f)
          if isinstance(f, types.FunctionType) and f.__module__ == mod.__name__ and f.__code__ not in self.codes:
            self.codes.append(f.__code__)
    lock = threading.Lock()

    def cb(code, line):
      with lock:
        fire = self.rng.random() < self.prob
        if fire:
          self.injected += 1
      if fire:
        time.sleep(0)

    mon.register_callback(self.tool, mon.events.LINE, cb)
    for c in self.codes:
      mon.set_local_events(self.tool, c, mon.events.LINE)
    return self

  def __exit__(self, *a):
    mon = sys.monitoring
    for c in self.codes:
      mon.set_local_events(self.tool, c, 0)
    mon.register_callback(self.tool, mon.events.LINE, None)
    try:
      mon.free_tool_id(self.tool)
    except ValueError:
      pass


def options_of(spec):
  from malt.core import converter
  rec, feats = spec
  fs = tuple(converter.Feature[n] for n in feats) or None
  return rec, fs


def expected_markers(g, spec):
  """The generated source must reflect the requested option set."""
  rec, feats = spec
  try:
    src = inspect.getsource(g)
  except (OSError, TypeError):
    return None
  want_eq = 'EQUALITY_OPERATORS' in feats
  has_eq = 'ag__.eq(' in src or 'ag__.not_eq(' in src
  if want_eq != has_eq:
    return 'generated code %s ag__.eq although EQUALITY_OPERATORS was %s' % (
        'uses' if has_eq else 'does not use', 'requested' if want_eq else 'not requested')
  if ('recursive=%s' % rec) not in src:
    return 'generated code embeds other options than requested (recursive=%s not found)' % rec
  return None


def build_pool(tag, salt):
  src = POOL_SRC % {'G': 100 + salt, 'salt': salt}
  m = diff.load_instance(src, 'c10' + tag)
  pool = []
  for k in (1, 2, 3):
    pool.append(('closure_k%d' % k, m.make(k, k + 1)))
  pool.append(('closure_k1_again', m.make(1, 2)))          # equal cells, distinct cell objects
  pool.append(('closure_other_default', m.make(1, 3)))
  pool.append(('plain', m.plain))
  g2 = dict(m.__dict__)
  g2['G'] = 7000 + salt
  clone = types.FunctionType(m.plain.__code__, g2, 'plain', m.plain.__defaults__, m.plain.__closure__)
  pool.append(('plain_clone_other_globals', clone))
  mk2 = types.FunctionType(m.make.__code__, g2, 'make')
  pool.append(('closure_other_globals', mk2(5, 6)))
  return m, pool


def judge_reply(name, f, g, spec, probs, api):
  if g.__globals__ is not f.__globals__:
    probs.append('%s via %s: reply has another __globals__' % (name, api))
  fc = dict(zip(f.__code__.co_freevars, f.__closure__ or ()))
  gc_ = dict(zip(g.__code__.co_freevars, g.__closure__ or ()))
  for n, c in fc.items():
    if n in gc_ and gc_[n] is not c:
      probs.append('%s via %s: reply closes over another cell for %s (%r vs %r)' % (name, api, n, gc_[n], c))
  for x in PROBES:
    a = f(x)
    try:
      b = g(x)
    except Exception as e:  # pylint:disable=broad-except
      probs.append('%s via %s opts %s: reply raised %s: %s' % (name, api, spec, type(e).__name__, str(e)[:120]))
      return
    if a != b:
      probs.append('%s via %s opts %s: f(%d)=%r but reply(%d)=%r' % (name, api, spec, x, a, x, b))
      return
  mk = expected_markers(g, spec)
  if mk:
    probs.append('%s via %s opts %s: %s' % (name, api, spec, mk))


def history(cid, seed, nthreads, nreq, switch, inject):
  import malt
  from malt.impl import api
  from malt.core import converter, ag_ctx
  rng = random.Random(seed)
  salt = rng.randint(1, 9)
  m, pool = build_pool('p', salt)
  # a module that will be redefined mid-history
  redef_dir = os.environ.get('VERIF_SCRATCH', '.')
  redef_name = 'c10redef_%d_%d' % (os.getpid(), abs(hash(cid)) % 100000)
  redef_path = os.path.join(redef_dir, redef_name + '.py')

  def write_redef(version):
    with open(redef_path, 'w') as f:
      f.write('def h(x):\n    r = %d\n    if x > 1:\n        r += x * %d\n    return (r, %d)\n%s' % (
          version, version, version, '# pad\n' * version))
    os.utime(redef_path, (time.time() + version * 10, time.time() + version * 10))

  write_redef(1)
  sys.path.insert(0, redef_dir)
  probs = []
  counters = collections.Counter()
  lock = threading.Lock()
  barrier = threading.Barrier(nthreads + 1)
  stop = threading.Event()
  opts_used = rng.sample(OPTION_SETS, rng.randint(2, len(OPTION_SETS)))
  try:
    redef = importlib.import_module(redef_name)

    def worker(idx):
      r = random.Random('%s/%d' % (seed, idx))
      threading.current_thread().vf_idx = idx
      mine = []
      try:
        barrier.wait(timeout=60)
      except threading.BrokenBarrierError:
        pass
      time.sleep(r.random() * 0.002)
      for q in range(nreq):
        name, f = r.choice(pool)
        spec = r.choice(opts_used)
        rec, fs = options_of(spec)
        kind = r.choice(['to_graph', 'to_graph', 'convert', 'converted_call', 'converted_call_disabled'])
        try:
          if kind == 'to_graph':
            g = malt.to_graph(f, recursive=rec, experimental_optional_features=fs)
            judge_reply(name, f, g, spec, mine, kind)
          elif kind == 'convert':
            w = api.convert(recursive=rec, optional_features=fs)(f)
            for x in PROBES[:2]:
              if w(x) != f(x):
                mine.append('%s via convert wrapper opts %s: wrapper(%d)=%r, f(%d)=%r' % (name, spec, x, w(x), x, f(x)))
          else:
            o = converter.ConversionOptions(recursive=rec, user_requested=True, optional_features=fs)
            x = r.choice([p_ for p_ in PROBES if p_ > 0])
            before = OPS.count()
            if kind == 'converted_call_disabled':
              # a request made while conversion is disabled runs the function as it is, and leaves no trace that
              # changes how later requests are served
              with ag_ctx.ControlStatusCtx(status=ag_ctx.Status.DISABLED):
                got = api.converted_call(f, (x,), None, options=o)
            else:
              got = api.converted_call(f, (x,), None, options=o)
            fired = OPS.count() - before
            if got != f(x):
              mine.append('%s via %s opts %s: %r, f(%d)=%r' % (name, kind, spec, got, x, f(x)))
            elif kind == 'converted_call' and fired == 0:
              mine.append('%s via converted_call opts %s: the function ran unconverted (no control-flow operator was '
                          'invoked), a fresh conversion runs its loop through the operators' % (name, spec))
            elif kind == 'converted_call_disabled' and fired:
              mine.append('%s via converted_call in a DISABLED context: converted code ran' % name)
            with lock:
              counters['converted_call_decisions_judged'] += 1
        except Exception as e:  # pylint:disable=broad-except
          import traceback
          ctx = e.__context__ or e
          tb = ''.join(traceback.format_exception(type(ctx), ctx, ctx.__traceback__))[-900:]
          mine.append('%s via %s opts %s: %s out of the cache layer: %s\n%s' % (name, kind, spec, type(e).__name__, str(e)[:200], tb))
        with lock:
          counters['requests_judged'] += 1
        if mine:
          break
      if mine:
        with lock:
          probs.extend(mine[:2])

    def churn():
      """Ephemeral functions are converted, dropped and collected while lookups run."""
      threading.current_thread().vf_idx = -2
      try:
        barrier.wait(timeout=60)
      except threading.BrokenBarrierError:
        pass
      n = 0
      while not stop.is_set() and n < 200:
        n += 1
        ns = {}
        exec(compile('def e%d(x):\n    if x:\n        return x + %d\n    return 0\n' % (n, n), redef_path + '.eph', 'exec'), ns)
        fn = ns['e%d' % n]
        try:
          # no source on disk: conversion of the ephemeral function must fail cleanly, never corrupt the cache
          malt.to_graph(fn)
        except Exception:  # pylint:disable=broad-except
          pass
        k, f = pool[n % len(pool)]
        tmp = types.FunctionType(f.__code__, f.__globals__, f.__name__, f.__defaults__, f.__closure__)
        g = malt.to_graph(tmp)
        if g(3) != f(3):
          with lock:
            probs.append('ephemeral copy of %s: reply computes %r, function %r' % (k, g(3), f(3)))
        del tmp, g, fn, ns
        gc.collect()
        with lock:
          counters['ephemeral_functions_collected'] += 1

    from vf import stream
    old = sys.getswitchinterval()
    sys.setswitchinterval(switch)
    tr_ = api._TRANSPILER
    real_cf = getattr(type(tr_), '_cached_factory', None)     # diagnostics only; absent in other layouts of the cache code
    diag = []

    def cf(self_, fn, subkey):
      try:
        return real_cf(self_, fn, subkey)
      except KeyError:
        c = self_._cache._cache
        par = c.get(fn.__code__)
        diag.append('KeyError in _cached_factory: has() now=%r, parent subkeys=%r, code=%s, entries=%d, refs for code=%d' % (
            self_._cache.has(fn, subkey), [k.as_tuple() for k in (par or {})], fn.__code__.co_name, len(c.data),
            sum(1 for r in list(c.data) if r() is fn.__code__)))
        raise

    if os.environ.get('VERIF_C10_DIAG') and real_cf is not None:
      type(tr_)._cached_factory = cf
    with TransformCounter() as tc, stream.FallbackCatcher() as fbc, OPS:
      inj = YieldInjector(random.Random(seed + 'inj'), 0.25) if inject else None
      if inj:
        inj.__enter__()
      try:
        ts = [threading.Thread(target=worker, args=(i,)) for i in range(nthreads)]
        ch = threading.Thread(target=churn)
        for t in ts:
          t.start()
        ch.start()
        for t in ts:
          t.join(300)
          if t.is_alive():
            counters['watchdog'] += 1
        stop.set()
        ch.join(60)
        # redefinition: same name, new code, after the old version was converted
        g1 = malt.to_graph(redef.h)
        if g1(3) != redef.h(3):
          probs.append('redefined function v1: reply %r, function %r' % (g1(3), redef.h(3)))
        write_redef(2)
        redef2 = importlib.reload(redef)
        g2 = malt.to_graph(redef2.h)
        if g2(3) != redef2.h(3):
          probs.append('stale code after redefinition: reply computes %r, new definition %r' % (g2(3), redef2.h(3)))
        counters['redefinitions_checked'] += 1
      finally:
        if inj:
          inj.__exit__()
          counters['yields_injected'] += inj.injected
        sys.setswitchinterval(old)
      for rec_ in fbc.records:
        if 'e1' in rec_ or '.eph' in rec_ or '<function e' in rec_:
          continue   # the ephemeral exec-defined functions have no source on purpose
        probs.append('conversion failed inside the call wrapper and fell back: %s' % rec_.replace('\n', ' | ')[:400])
      if real_cf is not None:
        type(tr_)._cached_factory = real_cf
      probs.extend(diag[:2])
      pool_codes = {id(f.__code__) for _, f in pool}
      worst = 0
      for (cid_, ot), n in tc.counts.items():
        if cid_ in pool_codes:
          worst = max(worst, n)
          if n > 1:
            probs.append('source transformation ran %d times for one (code object, options) pair %r' % (n, ot))
      counters['max_transforms_per_key'] = worst
      counters['transform_calls'] = sum(tc.counts.values())
      order = tuple(tc.order)
  finally:
    sys.path.remove(redef_dir)
    sys.modules.pop(redef_name, None)
    try:
      os.unlink(redef_path)
    except OSError:
      pass
    diff.unload(m)
  return probs, counters, order, opts_used


class OpCounter(object):
  """Per-thread count of control-flow operator invocations (wrappers around the real ag__ operators)."""

  def __init__(self):
    self.tl = threading.local()
    self.saved = {}

  def count(self):
    return getattr(self.tl, 'n', 0)

  def __enter__(self):
    self.ag = api_module()._TRANSPILER.get_extra_locals()['ag__']
    for name in ('if_stmt', 'for_stmt', 'while_stmt'):
      real = getattr(self.ag, name)
      self.saved[name] = real

      def mk(real):
        def op(*a, **k):
          self.tl.n = getattr(self.tl, 'n', 0) + 1
          return real(*a, **k)
        return op
      setattr(self.ag, name, mk(real))
    return self

  def __exit__(self, *a):
    for k, v in self.saved.items():
      setattr(self.ag, k, v)
    self.saved = {}


def api_module():
  from malt.impl import api as _api
  return _api


OPS = OpCounter()


def judge(cid, seed, nthreads, nreq, switch, inject):
  out = {'case': cid, 'verdict': 'ok', 'counters': {}}
  probs, counters, order, opts_used = history(cid, seed, nthreads, nreq, switch, inject)
  mx = counters.pop('max_transforms_per_key', 0)
  out['counters'] = dict(counters)
  out['max_transforms_per_key'] = mx
  if counters.get('watchdog'):
    out['verdict'] = 'inconclusive'
    out['detail'] = 'a worker thread did not finish within the watchdog'
    return out
  if probs:
    out['verdict'] = 'violation'
    out['detail'] = '; '.join(sorted(set(probs))[:4]) + '\nhistory: threads=%d requests/thread=%d switch=%g inject=%s options=%s' % (
        nthreads, nreq, switch, inject, opts_used)
    out['witness'] = {'seed': seed, 'nthreads': nthreads, 'nreq': nreq, 'switch': switch, 'inject': inject}
    return out
  out['nontrivial'] = (nthreads >= 2 or len(opts_used) >= 2) and counters['requests_judged'] > 0
  out['sig'] = 't%d|%s' % (nthreads, hash(order))
  out['order'] = list(order)[:40]
  return out


def plan(tier, seed):
  n = 3 if tier == 'quick' else 25
  return [{'seed': seed, 'slice': k, 'n': n, 'tier': tier, 'hashseed': (seed * 16 + k) % 4294967295} for k in range(16)]


def run_slice(spec):
  worst = 0
  for i in range(spec['n']):
    cid = 'C10/%d/%d/%d' % (spec['seed'], spec['slice'], i)
    rng = random.Random(cid + 'cfg')
    nthreads = rng.choice([1, 2, 3, 4, 8, 16, 32])
    nreq = max(6, 240 // nthreads)
    switch = rng.choice([5e-3, 1e-4, 1e-6])
    inject = rng.random() < 0.5
    out = judge(cid, cid, nthreads, nreq, switch, inject)
    order = out.pop('order', None)
    mx = out.pop('max_transforms_per_key', 0)
    out['counters']['histories_with_max_transforms_%d' % mx] = 1
    if out['verdict'] == 'ok' and i == 0:
      out['sample'] = {'case': cid, 'threads': nthreads, 'requests_per_thread': nreq, 'switch_interval': switch,
                       'yield_injection': inject, 'threads_entering_transform_in_order': order,
                       'max_transforms_per_key': mx}
    yield out


def replay(w):
  out = judge('replay', w['seed'], w['nthreads'], w['nreq'], w['switch'], w['inject'])
  out.pop('order', None)
  out.pop('max_transforms_per_key', None)
  return out


def conclusive(cov, tier):
  if cov.get('requests_judged', 0) < 1000:
    return 'only %d requests judged' % cov.get('requests_judged', 0)
  if cov.get('yields_injected', 0) == 0:
    return 'yield injection never fired'
  return None
