"""C12 — errors in converted code are reported at the original source location.

Reference: the unconverted function's own exception and traceback
(traceback.extract_tb), and for the source map the marker tokens that each
original statement line carries verbatim into the generated text.
"""
import os
import random
import re
import traceback

from vf import diff

ID = 'C12'
LEVEL = 'exploration'
RULE = ('generated call chains f0 -> f1 -> .. (depth 1-4, each link a plain callee, a do_not_convert callee, or reached through '
        'the allow-listed re.sub) with exactly one failing statement (explicit raise of builtin/user classes with and without '
        'custom constructor, KeyError, IndexError, ZeroDivisionError, TypeError, AttributeError, failing builtins) at a random '
        'statement position and nesting depth 0-3 (if/for/while/with/try-finally), one statement per line; the exception from '
        'convert(recursive=True)(f0)(x) is compared with the original exception/traceback; every source map of every conversion '
        'is checked against line markers. non-trivial = the failing statement was reached in both runs; distinct = (failure kind, '
        'chain kinds, nesting constructs)')
ASSUMPTIONS = ['classes whose __init__ is a builtin slot other than Exception.__init__ and that are not named in '
               'KNOWN_STRING_CONSTRUCTOR_ERRORS (e.g. ZeroDivisionError) may keep their type or become StagingError',
               'marker tokens T("L<n>") survive conversion verbatim and identify the original line of a generated line']
MIN_JUDGED = {'quick': 400, 'thorough': 4000}
SLICE_TIMEOUT = {'quick': 1200, 'thorough': 5400}

PRE = '''\
import re
import malt
LOG = []
def T(tag, v=0):
    return v
class E1(Exception):
    pass
class E2(Exception):
    def __init__(self, a, b=0):
        Exception.__init__(self, a)
        self.b = b
class E3(ValueError):
    pass
class E4(ValueError):
    def __init__(self, key, value):
        ValueError.__init__(self, '%s=%r' % (key, value))
        self.key = key
class E5(KeyError):
    def __init__(self, a, b, c):
        KeyError.__init__(self, a)
class E6(E4):
    pass
class E7(E2):
    pass
class E8(E1):
    pass
class CMX(object):
    def __enter__(self):
        return self
    def __exit__(self, *a):
        return False
class O(object):
    pass
'''

FAILURES = {
    'raise_E1': "raise E1('boom %d' % x)",
    'raise_E2_custom_init': "raise E2('custom', 7)",
    'raise_E3_subclass': "raise E3('sub')",
    'raise_ValueError': "raise ValueError('bad value')",
    'raise_E4_valueerror_subclass_custom_init': "raise E4('key', x)",
    'raise_E5_keyerror_subclass_custom_init': "raise E5('k', 1, 2)",
    'raise_E6_inherits_custom_init_of_user_base': "raise E6('key', x)",
    'raise_E7_inherits_optional_arg_init': "raise E7('seven')",
    'raise_E8_plain_subclass_of_plain_user_class': "raise E8('eight %d' % x)",
    'native_dict_pop': "y = {'a': 1}.pop('zz')",
    'native_math_domain': "y = __import__('math').sqrt(x - x - 1)",
    'wrong_arity_call': "y = O(1, 2)",
    'raise_UnicodeDecodeError': "raise UnicodeDecodeError('utf-8', b'x', 0, 1, 'bad')",
    'raise_KeyError': "raise KeyError('missing')",
    'raise_RuntimeError': "raise RuntimeError('rt\\nsecond line')",
    'key_error': "y = {'a': 1}['zz']",
    'index_error': "y = [1, 2][x + 10]",
    'zero_division': "y = 1 // (x - x)",
    'type_error': "y = 1 + 'a'",
    'attribute_error': "y = O().nope",
    'builtin_int': "y = int('x12')",
    'builtin_len': "y = len(5)",
    'assert_stmt': "assert x < 0, 'asserted'",
    'name_error': "y = undefined_name_zz",
    'unpack_error': "y, z = (1, 2, 3)",
}


class Gen(object):

  def __init__(self, seed):
    self.rng = random.Random(seed)
    self.lines = PRE.split('\n')
    if self.lines[-1] == '':
      self.lines.pop()
    self.constructs = []

  def ln(self):
    return len(self.lines) + 1

  def emit(self, ind, text):
    n = self.ln()
    self.lines.append('    ' * ind + text.replace('@L', 'T("L%d")' % n))
    return n

  def filler(self, ind):
    r = self.rng.random()
    if r < 0.4:
      self.emit(ind, 'x = x + @L')
    elif r < 0.6:
      self.emit(ind, 'w = @L + 1')
    elif r < 0.7:
      self.emit(ind, '@L')
    elif r < 0.8:
      # expressions and statements that open a scope of their own, textually before the failing statement
      self.emit(ind, self.rng.choice(['w = (lambda q: q + 1)(@L)', 'lam%d = lambda q=2: q' % self.ln(),
                                      'w = len([q for q in range(2 + @L)])', 'w = sum(q for q in (1, 2))',
                                      'w = {q: (lambda: q) for q in (1,)}[1]() + @L']))
      self.constructs.append('scope_expr')
    elif r < 0.9:
      n = self.ln()
      self.emit(ind, 'def h%d(q):' % n)
      self.emit(ind + 1, 'return q + 1')
      self.emit(ind, 'w = h%d(@L)' % n)
      self.constructs.append('nested_def')
    else:
      n = self.ln()
      self.emit(ind, 'class K%d(object):' % n)
      self.emit(ind + 1, 'attr = 1')
      self.emit(ind + 1, 'def meth(self):')
      self.emit(ind + 2, 'return self.attr')
      self.emit(ind, 'w = K%d().meth() + @L' % n)
      self.constructs.append('nested_class')

  def nest(self, ind, depth, payload):
    """Emits `payload(ind)` nested in `depth` constructs with fillers around it."""
    for _ in range(self.rng.randint(0, 2)):
      self.filler(ind)
    if depth == 0:
      payload(ind)
    else:
      c = self.rng.choice(['if', 'ifelse', 'for', 'while', 'with', 'tryfinally', 'tryexcept_other'])
      self.constructs.append(c)
      if c == 'if':
        self.emit(ind, 'if x >= @L:')
        self.nest(ind + 1, depth - 1, payload)
      elif c == 'ifelse':
        self.emit(ind, 'if x < @L:')
        self.filler(ind + 1)
        self.emit(ind, 'else:')
        self.nest(ind + 1, depth - 1, payload)
      elif c == 'for':
        self.emit(ind, 'for i%d in range(2 + @L):' % ind)
        self.nest(ind + 1, depth - 1, payload)
      elif c == 'while':
        self.emit(ind, 'k%d = 0' % ind)
        self.emit(ind, 'while k%d < 2 + @L:' % ind)
        self.emit(ind + 1, 'k%d += 1' % ind)
        self.nest(ind + 1, depth - 1, payload)
      elif c == 'with':
        self.emit(ind, 'with CMX():')
        self.nest(ind + 1, depth - 1, payload)
      elif c == 'tryfinally':
        self.emit(ind, 'try:')
        self.nest(ind + 1, depth - 1, payload)
        self.emit(ind, 'finally:')
        self.emit(ind + 1, 'w = 0')
      else:
        self.emit(ind, 'try:')
        self.nest(ind + 1, depth - 1, payload)
        self.emit(ind, 'except OSError:')
        self.emit(ind + 1, 'w = 0')
    for _ in range(self.rng.randint(0, 1)):
      self.filler(ind)

  def module(self):
    rng = self.rng
    depth = rng.randint(1, 4)
    kinds = ['conv'] + [rng.choice(['conv', 'conv', 'dnc', 'resub']) for _ in range(depth - 1)]
    fail = rng.choice(sorted(FAILURES))
    meta = {'kinds': kinds, 'fail': fail, 'lines': {}}
    # innermost first
    for i in reversed(range(depth)):
      name = 'f%d' % i
      if kinds[i] == 'dnc':
        self.emit(0, '@malt.experimental.do_not_convert')
      self.emit(0, 'def %s(x):' % name)
      self.emit(1, 'w = 0')
      if i == depth - 1:
        def payload(ind, name=name):
          meta['lines'][name] = self.emit(ind, FAILURES[fail])
      else:
        callee = 'f%d' % (i + 1)
        if kinds[i + 1] == 'resub':
          def payload(ind, name=name, callee=callee):
            meta['lines'][name] = self.emit(ind, "w = re.sub('a', lambda mt: str(%s(x)), 'a')" % callee)
        else:
          def payload(ind, name=name, callee=callee):
            meta['lines'][name] = self.emit(ind, 'w = %s(x + 0)' % callee)
      self.nest(1, rng.randint(0, 3), payload)
      self.emit(1, 'return w')
    return '\n'.join(self.lines) + '\n', meta


def user_frames(tb, modfile):
  return [(f.filename, f.name, f.lineno) for f in tb if f.filename == modfile]


def judge(cid, seed):
  import malt
  from malt.impl import api
  from malt.pyct import error_utils
  g = Gen(seed)
  src, meta = g.module()
  out = {'case': cid, 'verdict': 'ok', 'counters': {}}
  try:
    compile(src, 'c12', 'exec')
  except SyntaxError as e:
    out['verdict'] = 'inconclusive'
    out['detail'] = 'generator produced invalid python: %s' % e
    return out
  mo = diff.load_instance(src, 'c12o')
  mc = diff.load_instance(src, 'c12c')
  probs = []
  try:
    x = 3
    try:
      mo.f0(x)
      out['verdict'] = 'inconclusive'
      out['detail'] = 'original did not fail'
      return out
    except Exception as e:  # pylint:disable=broad-except
      e0 = e
      tb0 = traceback.extract_tb(e.__traceback__)
    conv = api.convert(recursive=True)(mc.f0)
    try:
      conv(x)
      probs.append('converted function did not raise; original raised %s' % type(e0).__name__)
      e = None
    except Exception as ee:  # pylint:disable=broad-except
      e = ee
    if e is not None:
      t0 = type(e0)
      mc_t0 = getattr(mc, t0.__name__, t0)   # user classes live in the module instance
      md = getattr(e, 'ag_error_metadata', None)
      if md is None:
        probs.append('exception %s carries no ag_error_metadata' % type(e).__name__)
      else:
        # ---- type
        plain = mc_t0.__init__ is Exception.__init__
        named = mc_t0 in error_utils.KNOWN_STRING_CONSTRUCTOR_ERRORS or mc_t0 is KeyError
        own_init = '__init__' in vars(mc_t0) or any('__init__' in vars(b) for b in mc_t0.__mro__[:-2]
                                                     if b.__module__ != 'builtins')
        if plain or named:
          ok_type = type(e) is mc_t0 or (mc_t0 is KeyError and isinstance(e, KeyError))
          if not ok_type:
            probs.append('original raised %s (takes a plain message), caller received %s' % (t0.__name__, type(e).__name__))
        elif own_init:
          if type(e) is not api.StagingError:
            probs.append('original raised %s (own constructor), caller received %s instead of StagingError' % (
                t0.__name__, type(e).__name__))
        else:
          if type(e) is not mc_t0 and type(e) is not api.StagingError:
            probs.append('original raised %s, caller received %s' % (t0.__name__, type(e).__name__))
        out['counters']['types_checked'] = 1
        # ---- message
        want_msg = '%s: %s' % (t0.__name__, e0)
        if md.cause_message != want_msg:
          probs.append('cause message %r, original %r' % (md.cause_message, want_msg))
        else:
          rest = str(e)
          for piece in want_msg.split('\n'):
            if piece not in rest:
              probs.append('str(exception) does not contain the original message %r' % want_msg)
              break
            rest = rest[rest.index(piece) + len(piece):]
        # ---- location
        uf0 = [(os.path.basename(f), n, l) for f, n, l in user_frames(tb0, mo.__file__)]
        ts = list(reversed(md.translated_stack))   # outermost first
        tsu = [(os.path.basename(fr.filename), fr.function_name, fr.lineno, fr.is_converted) for fr in ts
               if fr.filename == mc.__file__]
        # map file names of the two instances onto each other
        norm = lambda t: (t[1], t[2])
        orig_seq = [norm(t) for t in uf0 if t[1] != '<lambda>']
        got_seq = [norm(t) for t in tsu if t[1] != '<lambda>']
        # converted functions on the call path: until the first dnc/resub link
        conv_path = []
        for i, k in enumerate(meta['kinds']):
          if k == 'dnc':
            break   # do_not_convert disables conversion for everything below it
          conv_path.append('f%d' % i)   # a callee reached through allow-listed re.sub is called from a converted lambda
        inner_conv = [t for t in tsu if t[3]]
        if not inner_conv:
          probs.append('translated stack has no converted frame: %r' % (tsu,))
        else:
          # the innermost converted frame of the report = innermost frame of the original traceback in a converted function
          want_inner = [t for t in uf0 if t[1] in conv_path][-1]
          got_inner = inner_conv[-1]
          if (got_inner[1], got_inner[2]) != (want_inner[1], want_inner[2]):
            probs.append('reported location %s line %d, original traceback says %s line %d' % (
                got_inner[1], got_inner[2], want_inner[1], want_inner[2]))
          # every listed user frame is a frame of the original traceback, in order
          it = iter(orig_seq)
          if not all(any(o == gq for o in it) for gq in got_seq):
            probs.append('listed frames %r are not a subsequence of the original traceback %r' % (got_seq, orig_seq))
          # one converted entry per separately converted function on the path
          conv_names = [t[1] for t in tsu if t[3]]
          if sorted(conv_names) != sorted(conv_path):
            probs.append('converted entries %r, converted functions on the call path %r' % (conv_names, conv_path))
          # the failing statement itself
          if len(conv_path) == len(meta['kinds']):
            fl = meta['lines'][conv_path[-1]]
            if got_inner[2] != fl:
              probs.append('failing statement is on line %d, report says %d' % (fl, got_inner[2]))
        out['counters']['locations_checked'] = 1
    # ---- source maps of every function of the module
    for name in sorted(meta['lines']):
      fn = getattr(mc, name)
      if hasattr(fn, 'autograph_info__'):
        continue
      try:
        gfn = malt.to_graph(fn)
      except Exception:  # pylint:disable=broad-except
        continue
      smap = gfn.ag_source_map
      gen_file = gfn.__code__.co_filename
      try:
        with open(gen_file) as fh:
          gen_lines = fh.read().split('\n')
      except OSError:
        continue
      for loc, origin in smap.items():
        if loc.filename != gen_file:
          continue
        if not (1 <= loc.lineno <= len(gen_lines)):
          probs.append('source map entry for line %d outside the generated file' % loc.lineno)
          continue
        marks = set(int(mm) for mm in re.findall(r"'L(\d+)'", gen_lines[loc.lineno - 1]))
        out['counters']['source_map_entries_checked'] = out['counters'].get('source_map_entries_checked', 0) + 1
        if len(marks) == 1:
          (mk,) = marks
          out['counters']['source_map_marker_lines'] = out['counters'].get('source_map_marker_lines', 0) + 1
          if origin.loc.lineno != mk or origin.loc.filename != mc.__file__:
            probs.append('source map sends generated line %d (%s) to %s:%d, it was generated from line %d' % (
                loc.lineno, gen_lines[loc.lineno - 1].strip()[:60], os.path.basename(origin.loc.filename), origin.loc.lineno, mk))
            break
  finally:
    diff.unload(mo)
    diff.unload(mc)
  if probs:
    out['verdict'] = 'violation'
    body = '\n'.join('%3d %s' % (i + 1, l) for i, l in enumerate(src.split('\n')) if i + 1 > PRE.count('\n'))
    out['detail'] = '; '.join(probs[:3]) + '\nchain=%s failure=%s\n%s' % (meta['kinds'], meta['fail'], body)
    out['witness'] = {'seed': seed}
    return out
  out['nontrivial'] = out['counters'].get('locations_checked', 0) > 0
  out['sig'] = '%s|%s|%s' % (meta['fail'], '-'.join(meta['kinds']), '-'.join(g.constructs))
  out['meta'] = {'chain': meta['kinds'], 'failure': meta['fail'], 'constructs': g.constructs}
  return out


def plan(tier, seed):
  n = 50 if tier == 'quick' else 600
  return [{'seed': seed, 'slice': k, 'n': n, 'hashseed': (seed * 16 + k) % 4294967295} for k in range(16)]


def run_slice(spec):
  for i in range(spec['n']):
    cid = 'C12/%d/%d/%d' % (spec['seed'], spec['slice'], i)
    out = judge(cid, cid)
    mt = out.pop('meta', None)
    if out['verdict'] == 'ok' and i % 20 == 1:
      out['sample'] = mt
    yield out


def replay(w):
  out = judge('replay', w['seed'])
  out.pop('meta', None)
  return out
