"""C13 — call wrapper is transparent, obeys the conversion policy, falls back safely.

Three monitors around the real converted_call:
* transparency: result/LOG/binding of converted_call(f, args, kwargs, options)
  vs f(*args, **kwargs) for every callable kind x argument shape x options;
* policy: which functions ran through the (wrapped) control-flow operators,
  compared with the table written from g3doc/reference/functions.md;
* fallback (fault enumeration): a failpoint armed at each stage of the
  conversion pipeline x exception class; the call must still return the
  target's result, run the target once, warn, and remember the failure.
"""
import collections
import functools
import logging
import os
import random
import sys

from vf import diff
from vf.mon import ops

ID = 'C13'
LEVEL = 'fault_enumeration'
RULE = ('(a) 24 callable kinds x 5 argument shapes x option sets (recursive, user_requested, context ENABLED/DISABLED/'
        'UNSPECIFIED) compared with the direct call, and sequences of such calls on the same callable object under changing context/options (the decision must not depend on earlier calls); (b) conversion decision per kind observed through wrapped operators vs the '
        'documented table; (c) every stage of the pipeline (source lookup, parse, feature check, cfg, each analysis, each '
        'converter, load, factory create/instantiate) x 9 exception classes injected on 3 callable kinds, plus (thorough) '
        'source-free LINE failpoints at sampled positions inside malt/ during conversion; strict mode must raise. A case = one '
        'call or one injection; non-trivial = monitor compared a call that reached the wrapper; distinct = (kind, shape/options) or (stage, exception, callable)')
ASSUMPTIONS = ['policy table written from functions.md: not converted = artifacts, do_not_convert / DISABLED context, allowlisted '
               'modules, constructors, builtins, native or source-less/exec functions, generator functions, lru_cache wrappers, '
               'callees in non-recursive mode; everything else converted',
               'faults are Exceptions (not BaseExceptions) raised at stage entry or at a LINE event']
MIN_JUDGED = {'quick': 600, 'thorough': 2000}
SLICE_TIMEOUT = {'quick': 1500, 'thorough': 7200}

TARGETS = '''\
import collections, functools, math, operator, re, copy
LOG = []
def fn(a, b=2, *args, k=3, **kw):
    LOG.append(('fn', a, b, args, k, sorted(kw.items())))
    r = 0
    for i in range(2):
        if i:
            r += a
    return (r, b, args, k, sorted(kw.items()))
lam = lambda a, b=2: (LOG.append(('lam', a, b)), a if a else b)[1]
def inner(x):
    LOG.append(('inner', x))
    if x:
        return x + 1
    return 0
def outer(x):
    LOG.append(('outer', x))
    t = 0
    for i in range(2):
        t += inner(i)
    return t
class K(object):
    def __init__(self, v=1):
        LOG.append(('K.__init__', v))
        self.v = v
        if v:
            self.w = v + 1
        else:
            self.w = 0
    def meth(self, a, k=1):
        LOG.append(('K.meth', self.v, a, k))
        if a:
            return self.v + a + k
        return -k
    @classmethod
    def cm(cls, a):
        LOG.append(('K.cm', cls.__name__, a))
        if a:
            return a * 2
        return 0
    @staticmethod
    def sm(a, b=1):
        LOG.append(('K.sm', a, b))
        if a:
            return a + b
        return b
    def __call__(self, a):
        LOG.append(('K.__call__', self.v, a))
        if a:
            return self.v * a
        return 0
    def __len__(self):
        return 0
OBJ = K(3)
EMPTY = K(0)
p1 = functools.partial(fn, 1, k=5)
p2 = functools.partial(p1, 7, k=6, z=1)
p3 = functools.partial(functools.partial(K.sm, b=9), 4)
pm = functools.partial(OBJ.meth, k=4)
_ns = {'LOG': LOG}
exec("def exec_fn(a):\\n    LOG.append(('exec_fn', a))\\n    if a:\\n        return a + 10\\n    return 0\\n", _ns)
exec_fn = _ns['exec_fn']
def genfn(n):
    LOG.append(('genfn', n))
    for i in range(n):
        if i:
            yield i
@functools.lru_cache(maxsize=None)
def cached(a):
    LOG.append(('cached', a))
    if a:
        return a + 100
    return 0
def deco(f):
    @functools.wraps(f)
    def wrapper(*a, **k):
        LOG.append(('wrapper',))
        return f(*a, **k)
    return wrapper
@deco
def decorated(a):
    LOG.append(('decorated', a))
    if a:
        return a + 7
    return 0
NT = collections.namedtuple('NT', ['x', 'y'])
def failing(a):
    LOG.append(('failing', a))
    if a:
        raise ValueError('from target %d' % a)
    return a
'''


def kinds(m, api, malt):
  """(name, callable, sample args, sample kwargs, expected converted function names)."""
  return [
      ('function', m.fn, (1,), {'k': 4, 'z': 0}, {'fn'}),
      ('function_posonly', m.fn, (1, 5, 6, 7), {}, {'fn'}),
      ('lambda', m.lam, (0,), {}, set()),                         # no control-flow operators in a lambda body: ternary only
      ('nested_calls', m.outer, (1,), {}, {'outer', 'inner'}),
      ('bound_method', m.OBJ.meth, (2,), {'k': 3}, {'meth'}),
      ('bound_method_falsy_self', m.EMPTY.meth, (2,), {}, {'meth'}),
      ('unbound_method', m.K.meth, (m.OBJ, 2), {}, {'meth'}),
      ('class_method', m.K.cm, (3,), {}, {'cm'}),
      ('class_method_via_instance', m.OBJ.cm, (0,), {}, {'cm'}),
      ('static_method', m.K.sm, (1,), {'b': 2}, {'sm'}),
      ('callable_object', m.OBJ, (5,), {}, {'__call__'}),
      ('constructor', m.K, (2,), {}, set()),
      ('partial', m.p1, (9,), {'q': 1}, {'fn'}),
      ('partial_chain_overlapping_kw', m.p2, (8,), {'k': 0}, {'fn'}),
      ('partial_of_static', m.p3, (), {}, {'sm'}),
      ('partial_of_bound_method', m.pm, (1,), {}, {'meth'}),
      ('builtin_len', len, ([1, 2],), {}, set()),
      ('builtin_sorted_kw', sorted, ([3, 1],), {'reverse': True}, set()),
      ('c_function', __import__('math').floor, (2.5,), {}, set()),
      ('operator_fn', __import__('operator').add, (1, 2), {}, set()),
      ('exec_function', m.exec_fn, (1,), {}, set()),
      ('generator_function', m.genfn, (3,), {}, set()),
      ('lru_cache', m.cached, (1,), {}, set()),
      ('wraps_decorated', m.decorated, (1,), {}, {'decorated'}),   # the wrapper itself has no control flow
      ('namedtuple_class', m.NT, (1, 2), {}, set()),
      ('allowlisted_module_fn', __import__('copy').copy, ([1],), {}, set()),
      ('allowlisted_re', __import__('re').escape, ('a.b',), {}, set()),
      ('artifact_to_graph', malt.to_graph(m.inner), (1,), {}, {'inner'}),   # already converted: runs converted code as is
      ('do_not_convert', api.do_not_convert(m.outer), (1,), {}, set()),
      ('raising_target', m.failing, (1,), {}, {'failing'}),
      # native callables that merely share their name with a builtin that has an overload
      ('c_method_named_max', __import__('decimal').Decimal('1.5').max, (__import__('decimal').Decimal('2'),), {}, set()),
      ('c_unbound_method_named_min', __import__('decimal').Decimal.min,
       (__import__('decimal').Decimal('1'), __import__('decimal').Decimal('3')), {}, set()),
      ('operator_abs', __import__('operator').abs, (-3,), {}, set()),
      ('deque_method_named_len_like', __import__('collections').deque([1, 2]).count, (1,), {}, set()),
      ('ndarray_any', __import__('numpy').array([0, 1]).any, (), {}, set()),
      ('ndarray_max_kw', __import__('numpy').array([[1, 5], [7, 2]]).max, (), {'axis': 0}, set()),
      ('str_method_named_like_builtin', 'a-b'.format, (), {}, set()),
      ('dict_method_filter_like', {'k': 1}.get, ('k',), {}, set()),
  ]


class OpRecorder(object):
  """Counts control-flow operator invocations per converted function."""

  def __init__(self):
    self.names = set()
    self.saved = {}

  def __enter__(self):
    self.ag = ops.ag_module()
    rec = self
    for name in ('if_stmt', 'for_stmt', 'while_stmt'):
      real = getattr(self.ag, name)
      self.saved[name] = real

      def mk(real):
        def op(*a, **k):
          fr = sys._getframe(1)
          while fr is not None:
            nm = fr.f_code.co_name
            if nm.startswith('ag__') and os.path.basename(fr.f_code.co_filename).startswith('__autograph_generated_file'):
              rec.names.add(nm[4:])
              break
            fr = fr.f_back
          return real(*a, **k)
        return op
      setattr(self.ag, name, mk(real))
    return self

  def __exit__(self, *a):
    for k, v in self.saved.items():
      setattr(self.ag, k, v)


class WarnCatcher(logging.Handler):

  def __init__(self):
    logging.Handler.__init__(self, level=logging.WARNING)
    self.msgs = []

  def emit(self, record):
    try:
      self.msgs.append(record.getMessage())
    except Exception:  # pylint:disable=broad-except
      self.msgs.append(str(record.msg))

  def __enter__(self):
    logging.getLogger().addHandler(self)
    return self

  def __exit__(self, *a):
    logging.getLogger().removeHandler(self)


def observe(fn_call, m):
  del m.LOG[:]
  m.cached.cache_clear()
  try:
    r = fn_call()
    if hasattr(r, '__next__'):
      r = list(r)
    out = ('ret', diff.canon(r))
  except Exception as e:  # pylint:disable=broad-except
    out = ('exc', type(e).__name__, str(e)[:80] if 'from target' in str(e) else '')
  return out, [tuple(map(repr, x)) for x in m.LOG]


def shapes(args, kwargs):
  yield 'given', args, dict(kwargs) if kwargs else None
  yield 'kwargs_empty_dict', args, {} if not kwargs else dict(kwargs)
  if not kwargs:
    yield 'kwargs_none', args, None


def expected_policy(name, conv_names, status, rec):
  expect = set(conv_names)
  if status == 'DISABLED':
    expect = set() if name != 'artifact_to_graph' else {'inner'}
  if not rec:
    # non-recursive: only the requested function itself, callees stay unconverted
    expect = expect - {'inner', 'decorated'} if name in ('nested_calls', 'wraps_decorated') else expect
    if name == 'artifact_to_graph':
      expect = {'inner'}
  return expect


# sequences of (context status, recursive) under which the same callable object is called one after the other: the
# decision taken for a call depends on the callable, the options and the context, never on earlier calls
HISTORIES = [
    [('DISABLED', True), ('ENABLED', True)],
    [('DISABLED', True), ('UNSPECIFIED', True), ('DISABLED', True), ('ENABLED', True)],
    [('ENABLED', True), ('DISABLED', True), ('ENABLED', True)],
    [('ENABLED', False), ('ENABLED', True), ('ENABLED', False)],
    [('DISABLED', False), ('ENABLED', False), ('ENABLED', True)],
    [('UNSPECIFIED', True), ('DISABLED', True), ('UNSPECIFIED', True)],
]


def judge_history(cid, kind_idx, hist_idx, user_req):
  import malt
  from malt.impl import api
  from malt.core import converter, ag_ctx
  m = diff.load_instance(TARGETS, 'c13')
  out = {'case': cid, 'verdict': 'ok', 'counters': collections.Counter()}
  probs = []
  try:
    ks = kinds(m, api, malt)
    name, f, args, kwargs, conv_names = ks[kind_idx]
    done = []
    for status, rec in HISTORIES[hist_idx]:
      o = converter.ConversionOptions(recursive=rec, user_requested=user_req, optional_features=None)
      want = observe(lambda: f(*args, **(kwargs or {})), m)
      with OpRecorder() as opr:
        with ag_ctx.ControlStatusCtx(status=getattr(ag_ctx.Status, status)):
          got = observe(lambda: api.converted_call(f, args, dict(kwargs) if kwargs else None, options=o), m)
      out['counters']['calls_compared'] += 1
      out['counters']['policy_decisions_checked'] += 1
      out['counters']['calls_with_history'] += 1 if done else 0
      if got != want:
        probs.append('%s after %s, ctx=%s recursive=%s: direct call %r, through the wrapper %r' % (name, done, status, rec, want, got))
        break
      expect = expected_policy(name, conv_names, status, rec)
      if opr.names != expect:
        probs.append('%s ctx=%s recursive=%s user_requested=%s, after the calls %s: control-flow operators fired in %s, '
                     'documented policy says %s' % (name, status, rec, user_req, done, sorted(opr.names), sorted(expect)))
        break
      done.append((status, rec))
  finally:
    diff.unload(m)
  out['counters'] = dict(out['counters'])
  if probs:
    out['verdict'] = 'violation'
    out['detail'] = probs[0]
    out['witness'] = {'kind': 'history', 'kind_idx': kind_idx, 'hist_idx': hist_idx, 'user_req': user_req}
    return out
  out['nontrivial'] = True
  out['sig'] = 'H|%s|%d|%s' % (name, hist_idx, user_req)
  return out


def judge_transparency(cid, kind_idx, rec, user_req, status):
  import malt
  from malt.impl import api
  from malt.core import converter, ag_ctx
  m = diff.load_instance(TARGETS, 'c13')
  out = {'case': cid, 'verdict': 'ok', 'counters': collections.Counter()}
  probs = []
  try:
    ks = kinds(m, api, malt)
    name, f, args, kwargs, conv_names = ks[kind_idx]
    o = converter.ConversionOptions(recursive=rec, user_requested=user_req, optional_features=None)
    for sname, a, k in shapes(args, kwargs):
      want = observe(lambda: f(*a, **(k or {})), m)
      with OpRecorder() as opr, WarnCatcher() as wc:
        with ag_ctx.ControlStatusCtx(status=getattr(ag_ctx.Status, status)):
          got = observe(lambda: api.converted_call(f, a, k, options=o), m)
      out['counters']['calls_compared'] += 1
      if got != want:
        probs.append('%s [%s] recursive=%s user_requested=%s ctx=%s: direct call %r, through the wrapper %r' % (
            name, sname, rec, user_req, status, want, got))
        break
      fallback = [w for w in wc.msgs if 'could not transform' in w]
      if fallback and name not in ('generator_function',):
        probs.append('%s: conversion failed and fell back: %s' % (name, fallback[0][:200]))
        break
      # policy
      expect = expected_policy(name, conv_names, status, rec)
      out['counters']['policy_decisions_checked'] += 1
      if opr.names != expect:
        probs.append('%s recursive=%s user_requested=%s ctx=%s: control-flow operators fired in %s, documented policy says %s' % (
            name, rec, user_req, status, sorted(opr.names), sorted(expect)))
        break
  finally:
    diff.unload(m)
  out['counters'] = dict(out['counters'])
  if probs:
    out['verdict'] = 'violation'
    out['detail'] = probs[0]
    out['witness'] = {'kind': 'transparency', 'kind_idx': kind_idx, 'rec': rec, 'user_req': user_req, 'status': status}
    return out
  out['nontrivial'] = True
  out['sig'] = 'T|%s|%s|%s|%s' % (name, rec, user_req, status)
  return out


# ---- fault enumeration ----------------------------------------------------------
def stages():
  """(label, module object, attribute) wrapped with a failpoint."""
  from malt.pyct import inspect_utils, parser, cfg, loader, transpiler, origin_info, qual_names
  from malt.core import unsupported_features_checker
  from malt.pyct.static_analysis import activity, reaching_definitions, reaching_fndefs, liveness
  from malt import converters
  import importlib
  st = [
      ('source_lookup', inspect_utils, 'getimmediatesource'),
      ('parse', parser, 'parse_entity'),
      ('origin_info', origin_info, 'resolve_entity'),
      ('feature_check', unsupported_features_checker, 'verify'),
      ('cfg', cfg, 'build'),
      ('qual_names', qual_names, 'resolve'),
      ('activity', activity, 'resolve'),
      ('reaching_definitions', reaching_definitions, 'resolve'),
      ('reaching_fndefs', reaching_fndefs, 'resolve'),
      ('liveness', liveness, 'resolve'),
      ('load_ast', loader, 'load_ast'),
      ('factory_create', transpiler._PythonFnFactory, 'create'),
      ('factory_instantiate', transpiler._PythonFnFactory, 'instantiate'),
  ]
  for cname in ('functions', 'directives', 'break_statements', 'continue_statements', 'return_statements', 'call_trees',
                'control_flow', 'conditional_expressions', 'logical_expressions', 'variables'):
    st.append(('converter_' + cname, importlib.import_module('malt.converters.' + cname), 'transform'))
  return st


def exc_classes():
  from malt.pyct import errors
  return [ValueError, KeyError, TypeError, AttributeError, NotImplementedError, AssertionError, RuntimeError,
          errors.InaccessibleSourceCodeError, errors.UnsupportedLanguageElementError]


class Failpoint(object):

  def __init__(self, owner, attr, exc):
    self.owner, self.attr, self.exc = owner, attr, exc
    self.armed = True
    self.hits = 0
    self.hits_after = 0

  def __enter__(self):
    self.real = getattr(self.owner, self.attr)
    fp = self
    real = self.real

    def wrapped(*a, **k):
      if fp.armed:
        fp.hits += 1
        raise fp.exc('injected fault at %s.%s' % (getattr(fp.owner, '__name__', fp.owner), fp.attr))
      fp.hits_after += 1
      return real(*a, **k)

    setattr(self.owner, self.attr, wrapped)
    return self

  def __exit__(self, *a):
    setattr(self.owner, self.attr, self.real)


FAULT_TARGETS = [('function', lambda m: (m.fn, (1,), {'k': 4})),
                 ('bound_method', lambda m: (m.OBJ.meth, (2,), {'k': 3})),
                 ('callable_object', lambda m: (m.OBJ, (5,), None)),
                 ('partial_of_bound_method', lambda m: (m.pm, (1,), None)),
                 ('class_method', lambda m: (m.K.cm, (3,), None))]


def judge_fault(cid, stage_idx, exc_idx, tgt_idx, strict=False):
  from malt.impl import api
  from malt.core import converter, ag_ctx
  from malt.pyct import errors
  st = stages()[stage_idx]
  exc = exc_classes()[exc_idx]
  m = diff.load_instance(TARGETS, 'c13f')
  out = {'case': cid, 'verdict': 'ok', 'counters': collections.Counter()}
  probs = []
  old_env = os.environ.get('AUTOGRAPH_STRICT_CONVERSION')
  try:
    tname, mk = FAULT_TARGETS[tgt_idx]
    f, a, k = mk(m)
    o = converter.ConversionOptions(recursive=True, user_requested=True, optional_features=None)
    want = observe(lambda: f(*a, **(k or {})), m)
    if strict:
      os.environ['AUTOGRAPH_STRICT_CONVERSION'] = '1'
    with Failpoint(st[1], st[2], exc) as fp, WarnCatcher() as wc, OpRecorder() as opr:
      got = observe(lambda: api.converted_call(f, a, k, options=o), m)
      out['counters']['failpoints_injected'] += fp.hits
      if fp.hits == 0:
        out['verdict'] = 'inconclusive'
        out['detail'] = 'failpoint %s never reached' % st[0]
        return out
      if strict:
        out['counters']['strict_mode_checked'] += 1
        if got[0][0] != 'exc':
          probs.append('strict mode: fault %s at %s did not propagate (%r)' % (exc.__name__, st[0], got))
      else:
        if got != want:
          probs.append('fault %s at stage %s, target %s: direct call %r, through the wrapper %r' % (
              exc.__name__, st[0], tname, want, got))
        elif opr.names:
          probs.append('fault %s at stage %s: operators still fired in %s' % (exc.__name__, st[0], sorted(opr.names)))
        else:
          warned = any('could not transform' in w for w in wc.msgs)
          quiet_ok = exc is errors.InaccessibleSourceCodeError and not ag_ctx.INSPECT_SOURCE_SUPPORTED
          if not warned and not quiet_ok:
            probs.append('fault %s at stage %s, target %s: fell back without a warning' % (exc.__name__, st[0], tname))
          # the failure is remembered: a second identical call must not attempt conversion again
          fp.armed = False
          before = fp.hits_after
          got2 = observe(lambda: api.converted_call(f, a, k, options=o), m)
          out['counters']['second_calls_checked'] += 1
          if got2 != want:
            probs.append('second call after a failed conversion: %r vs %r' % (want, got2))
          elif fp.hits_after != before or opr.names:
            probs.append('fault %s at stage %s, target %s: failure not remembered, the second identical call attempted conversion again' % (
                exc.__name__, st[0], tname))
  finally:
    if old_env is None:
      os.environ.pop('AUTOGRAPH_STRICT_CONVERSION', None)
    else:
      os.environ['AUTOGRAPH_STRICT_CONVERSION'] = old_env
    diff.unload(m)
  out['counters'] = dict(out['counters'])
  if probs:
    out['verdict'] = 'violation'
    out['detail'] = probs[0]
    out['witness'] = {'kind': 'fault', 'stage_idx': stage_idx, 'exc_idx': exc_idx, 'tgt_idx': tgt_idx, 'strict': strict}
    return out
  out['nontrivial'] = True
  out['sig'] = 'F|%s|%s|%s|%s' % (st[0], exc.__name__, FAULT_TARGETS[tgt_idx][0], strict)
  return out


def judge_line_fault(cid, seed, k_frac):
  """Source-free failpoint: the k-th LINE event inside malt/ during conversion raises."""
  from malt.impl import api
  from malt.core import converter
  import malt as malt_pkg
  root = os.path.dirname(os.path.abspath(malt_pkg.__file__)) + os.sep
  mon = sys.monitoring
  tool = 5
  out = {'case': cid, 'verdict': 'ok', 'counters': collections.Counter()}
  m0 = diff.load_instance(TARGETS, 'c13l0')
  m = diff.load_instance(TARGETS, 'c13l')
  state = {'n': 0, 'target': None, 'fired': None, 'active': False}

  def cb(code, line):
    if not state['active']:
      return mon.DISABLE if not code.co_filename.startswith(root) else None
    if not code.co_filename.startswith(root):
      return mon.DISABLE
    if code.co_filename.endswith(('impl/api.py', 'ag_logging.py', 'ag_ctx.py')):
      return None   # the wrapper itself and logging are the fallback machinery, not the pipeline
    state['n'] += 1
    if state['target'] is not None and state['n'] == state['target']:
      state['fired'] = (code.co_filename[len(root):], line)
      raise RuntimeError('injected line fault at %s:%d' % state['fired'])
    return None

  try:
    mon.use_tool_id(tool, 'vf-c13')
  except ValueError:
    pass
  try:
    mon.register_callback(tool, mon.events.LINE, cb)
    mon.set_events(tool, mon.events.LINE)
    o = converter.ConversionOptions(recursive=True, user_requested=True, optional_features=None)
    # clean run to count events
    state['active'] = True
    observe(lambda: api.converted_call(m0.fn, (1,), {'k': 4}, options=o), m0)
    state['active'] = False
    total = state['n']
    if total < 100:
      out['verdict'] = 'inconclusive'
      out['detail'] = 'only %d LINE events counted' % total
      return out
    want = observe(lambda: m.fn(1, k=4), m)
    state['n'] = 0
    state['target'] = max(1, int(total * k_frac))
    with WarnCatcher() as wc:
      state['active'] = True
      mon.restart_events()
      got = observe(lambda: api.converted_call(m.fn, (1,), {'k': 4}, options=o), m)
      state['active'] = False
    out['counters']['line_events_in_clean_conversion'] = total
    if state['fired'] is None:
      out['verdict'] = 'skip'
      out['detail'] = 'line fault position not reached (cached path)'
      return out
    out['counters']['failpoints_injected'] += 1
    out['counters']['line_failpoints_injected'] += 1
    if got != want:
      out['verdict'] = 'violation'
      out['detail'] = 'line fault at %s:%d: direct call %r, through the wrapper %r' % (state['fired'][0], state['fired'][1], want, got)
      out['witness'] = {'kind': 'line', 'seed': seed, 'k_frac': k_frac}
      return out
    if not any('could not transform' in w for w in wc.msgs):
      out['verdict'] = 'violation'
      out['detail'] = 'line fault at %s:%d: fell back without a warning' % state['fired']
      out['witness'] = {'kind': 'line', 'seed': seed, 'k_frac': k_frac}
      return out
    out['nontrivial'] = True
    out['sig'] = 'L|%s|%d' % state['fired']
    return out
  finally:
    mon.set_events(tool, 0)
    mon.register_callback(tool, mon.events.LINE, None)
    try:
      mon.free_tool_id(tool)
    except ValueError:
      pass
    diff.unload(m)
    diff.unload(m0)


def plan(tier, seed):
  specs = [{'kind': 'transparency', 'part': k, 'parts': 6, 'seed': seed, 'hashseed': seed} for k in range(6)]
  specs += [{'kind': 'fault', 'part': k, 'parts': 8, 'seed': seed, 'tier': tier, 'hashseed': seed} for k in range(8)]
  if tier == 'thorough':
    specs += [{'kind': 'line', 'part': k, 'parts': 8, 'seed': seed, 'n': 60, 'hashseed': seed} for k in range(8)]
  else:
    specs += [{'kind': 'line', 'part': k, 'parts': 2, 'seed': seed, 'n': 6, 'hashseed': seed} for k in range(2)]
  return specs


def run_slice(spec):
  if spec['kind'] == 'transparency':
    combos = []
    nk = 38
    for ki in range(nk):
      for rec in (True, False):
        for ur in (True, False):
          for status in ('UNSPECIFIED', 'ENABLED', 'DISABLED'):
            combos.append((ki, rec, ur, status))
    for idx, (ki, rec, ur, status) in enumerate(combos):
      if idx % spec['parts'] != spec['part']:
        continue
      out = judge_transparency('C13t/%d/%s/%s/%s' % (ki, rec, ur, status), ki, rec, ur, status)
      if out['verdict'] == 'ok' and idx % 97 == 0:
        out['sample'] = {'case': out['case'], 'what': 'converted_call vs direct call, operators observed vs documented policy',
                         'calls_compared': out['counters'].get('calls_compared')}
      yield out
    hist = [(ki, hi, ur) for ki in range(nk) for hi in range(len(HISTORIES)) for ur in (True, False)]
    for idx, (ki, hi, ur) in enumerate(hist):
      if idx % spec['parts'] != spec['part']:
        continue
      yield judge_history('C13h/%d/%d/%s' % (ki, hi, ur), ki, hi, ur)
  elif spec['kind'] == 'fault':
    ns, ne = len(stages()), len(exc_classes())
    combos = [(s, e, t) for s in range(ns) for e in range(ne) for t in range(len(FAULT_TARGETS))]
    if spec['tier'] == 'quick':
      combos = [c for c in combos if c[2] < 3]
    for idx, (s, e, t) in enumerate(combos):
      if idx % spec['parts'] != spec['part']:
        continue
      out = judge_fault('C13f/%d/%d/%d' % (s, e, t), s, e, t)
      if out['verdict'] == 'ok' and idx % 131 == 0:
        out['sample'] = {'case': out['case'], 'stage': stages()[s][0], 'exception': exc_classes()[e].__name__,
                         'target': FAULT_TARGETS[t][0], 'checked': ['same result', 'target ran once (LOG)', 'warning', 'failure remembered']}
      yield out
      if e == 0 and t == 0:
        yield judge_fault('C13strict/%d' % s, s, 6, 0, strict=True)
  else:
    rng = random.Random('C13line/%d/%d' % (spec['seed'], spec['part']))
    for i in range(spec['n']):
      yield judge_line_fault('C13l/%d/%d/%d' % (spec['seed'], spec['part'], i), spec['seed'], rng.random())


def replay(w):
  if w['kind'] == 'transparency':
    return judge_transparency('replay', w['kind_idx'], w['rec'], w['user_req'], w['status'])
  if w['kind'] == 'history':
    return judge_history('replay', w['kind_idx'], w['hist_idx'], w['user_req'])
  if w['kind'] == 'fault':
    return judge_fault('replay', w['stage_idx'], w['exc_idx'], w['tgt_idx'], w.get('strict', False))
  return judge_line_fault('replay', w['seed'], w['k_frac'])


def conclusive(cov, tier):
  if cov.get('failpoints_injected', 0) < 300:
    return 'only %d failpoints injected' % cov.get('failpoints_injected', 0)
  if cov.get('policy_decisions_checked', 0) < 300:
    return 'too few policy decisions observed'
  return None
