"""C01 — conversion preserves Python semantics under the default operators.

Oracle: CPython running the unconverted function (instance O) vs the real
converted function (instance C) on the same inputs; outcomes compared under
the property's own rules (vf/diff.py).
"""
import random

from vf import diff
from vf import kfclass
from vf import stream
from vf.gen import closures
from vf.gen import grammar
from vf.gen import skeleton

ID = 'C01'
LEVEL = 'exploration'
RULE = ('random programs from the seeded grammar (profile c01: all constructs of the quantifier) plus '
        'enumerated control-flow skeletons with all decision vectors; each program converted by one of '
        'to_graph / to_graph(recursive=False) / convert decorator / convert(recursive=False) / via converted_call '
        'from a converted caller, under a feature subset of {BUILTIN_FUNCTIONS, EQUALITY_OPERATORS}, and run on 5 inputs; '
        'a case is non-trivial when conversion succeeded and >=1 run pair was compared; distinct = distinct '
        'construct-kind x nesting-depth multiset of the program (shape signature) x mode')
ASSUMPTIONS = [
    'CPython executing the unconverted function is the reference',
    'generator stays inside the quantifier: no implicit exceptions inside try, inert finally blocks when the try '
    'contains a raise, no jumps in finally, no for/while-else, no generators',
]
MIN_JUDGED = {'quick': 400, 'thorough': 4000}
SLICE_TIMEOUT = {'quick': 1500, 'thorough': 7200}

N_QUICK = 60      # programs per slice (16 slices)
N_THOROUGH = 700


def plan(tier, seed):
  n = N_QUICK if tier == 'quick' else N_THOROUGH
  specs = []
  for k in range(16):
    specs.append({'kind': 'random', 'seed': seed, 'slice': k, 'n': n, 'hashseed': (seed * 16 + k) % 4294967295,
                  'tier': tier})
  for k in range(16):
    specs.append({'kind': 'skeleton', 'seed': seed, 'slice': k, 'parts': 16,
                  'tier': tier, 'hashseed': (seed * 16 + k + 7) % 4294967295})
  specs.append({'kind': 'closures', 'seed': seed, 'hashseed': seed % 4294967295, 'tier': tier})
  for k in range(8):
    specs.append({'kind': 'trymatrix', 'seed': seed, 'slice': k, 'parts': 8, 'tier': tier,
                  'hashseed': (seed * 16 + k + 11) % 4294967295})
  return specs


def _case_random(seed, sl, idx):
  cid = 'C01/%d/%d/%d' % (seed, sl, idx)
  rng = random.Random(cid)
  prof = grammar.profile('c01' if rng.random() < 0.7 else 'c01safe')
  src, meta = grammar.gen_module(cid, prof)
  inputs = grammar.gen_inputs(cid, 5)
  mode = rng.choice(stream.MODES)
  feats = rng.choice(stream.FEATURE_SETS)
  return cid, src, inputs, mode, feats


_reductions = [0]


def judge(cid, src, inputs, mode, feats, reduce=True):
  r = stream.diff_case(src, inputs, mode, feats)
  if reduce and r['verdict'] == 'violation':
    _reductions[0] += 1
    if _reductions[0] > 3:
      reduce = False
  out = {'case': cid, 'verdict': r['verdict'],
         'counters': {'run_pairs': r['runs'], 'exception_runs': r['exc_runs'],
                      'log_events': r['log_events'], 'conversions': 1,
                      'watchdog_inconclusive_inputs': r.get('watchdog_inconclusive', 0),
                      'reference_timeouts': r.get('ref_timeouts', 0)}}
  if r['verdict'] == 'ok':
    out['nontrivial'] = r['runs'] > 0
    out['sig'] = mode + '|' + grammar.shape_signature(src)
    return out
  if r['verdict'] == 'inconclusive':
    out['detail'] = r['detail']
    return out
  # violation: reduce, classify
  wsrc = src
  winputs = inputs
  if reduce:
    if not r['conversion_error']:
      winputs = [r['input']]

    def still(text):
      rr = stream.diff_case(text, winputs, mode, feats)
      return rr['verdict'] == 'violation' and rr['conversion_error'] == r['conversion_error']

    wsrc = stream.reduce_source(src, still)
    r2 = stream.diff_case(wsrc, winputs, mode, feats)
    if r2['verdict'] == 'violation':
      r = r2
    else:
      wsrc = src
  out['detail'] = r['detail'] + '\n--- program ---\n' + stream.body_of(wsrc)
  out['witness'] = {'src': wsrc, 'inputs': winputs, 'mode': mode, 'feats': feats}
  out['mechanism'] = kfclass.classify_c01(wsrc, r['detail'], winputs, mode, feats)
  return out


def run_slice(spec):
  if spec['kind'] == 'random':
    for i in range(spec['n']):
      cid, src, inputs, mode, feats = _case_random(spec['seed'], spec['slice'], i)
      out = judge(cid, src, inputs, mode, feats)
      if i == 3 and out['verdict'] == 'ok':
        out['sample'] = {'case': cid, 'mode': mode, 'features': feats, 'inputs': inputs[:2],
                         'program': stream.body_of(src)}
      yield out
  elif spec['kind'] == 'trymatrix':
    # nested try statements with two jumps (see vf/gen/trymatrix.py); a sample of the C05 enumeration
    from vf.gen import trymatrix
    for k, (cid, src, inputs) in enumerate(trymatrix.cases(spec['seed'] + 1000, spec['slice'], spec['parts'], spec['tier'])):
      if k >= (100 if spec['tier'] == 'quick' else 1500):
        break
      mode = ['to_graph', 'convert', 'via_call'][k % 3]
      out = judge('C01' + cid, src, inputs[:12], mode, [], reduce=False)
      out['counters']['nested_try_programs'] = 1
      if out['verdict'] == 'ok':
        out['sig'] = cid
      yield out
  elif spec['kind'] == 'closures':
    for k, (cid, src, inputs) in enumerate(closures.cases()):
      mode = ['to_graph', 'convert', 'via_call'][k % 3]
      out = judge('C01' + cid, src, inputs, mode, [], reduce=False)
      out['counters']['closure_programs'] = 1
      if out['verdict'] == 'ok':
        out['sig'] = cid
      yield out
  else:
    n = 0
    for cid, src, inputs in skeleton.cases(spec['seed'], spec['slice'], spec['parts'], spec['tier']):
      rng = random.Random(cid)
      mode = rng.choice(['to_graph', 'convert', 'via_call'])
      out = judge(cid, src, inputs, mode, [])
      out['counters']['skeletons'] = 1
      n += 1
      if n == 2 and out['verdict'] == 'ok':
        out['sample'] = {'case': cid, 'mode': mode, 'inputs': inputs[:3], 'program': stream.body_of(src)}
      yield out


def replay(w):
  return judge('replay', w['src'], w['inputs'], w['mode'], w['feats'], reduce=False)
