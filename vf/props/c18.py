"""C18 — A-normal-form transformation preserves evaluation order and yields ANF.

Oracle: CPython executing the original function; the compiled output of the
real anf.transform must produce the same result, the same ordered side-effect
log and the same exception class, and every position the active configuration
marks REPLACE must hold a variable or literal.
"""
import ast
import random
import textwrap

from vf import diff

ID = 'C18'
LEVEL = 'exploration'
RULE = ('generated straight-line/if/for/with/try functions whose operands are logging calls and logging objects in every '
        'operand position (call arguments, keywords, starred, attribute bases, subscripts, slices, binary/unary/compare operands, '
        'collection displays, return/raise operands, store targets), transformed under the default configuration and under '
        'random ASTEdgePattern lists, compiled and run on 4 inputs next to the original; lazy constructs (BoolOp, IfExp, lambda, '
        'comprehension, chained compare, non-trivial while test) with side-effecting operands must be rejected. non-trivial = '
        'transform accepted and introduced >= 1 temporary, or rejected a lazy construct; distinct = multiset of statement/operand kinds')
ASSUMPTIONS = ['operand side effects only log (they never rebind a variable read elsewhere in the same statement): variable '
               'references are documented as never being named',
               'exemptions taken from the transform docstring: Assign/AugAssign/Delete/Expr children, store targets']
MIN_JUDGED = {'quick': 400, 'thorough': 4000}
SLICE_TIMEOUT = {'quick': 900, 'thorough': 3600}

PRE = '''\
LOG = []
def T(tag, v=None):
    LOG.append(('T', tag, repr(v)))
    return v
def _num(o):
    if isinstance(o, L):
        return o.v
    if isinstance(o, (int, float)) and not isinstance(o, bool):
        return o
    return 0
class L(object):
    """object whose operator/attribute/item protocol logs"""
    def __init__(self, tag, v=0):
        object.__setattr__(self, 'tag', tag)
        object.__setattr__(self, 'v', _num(v))
        object.__setattr__(self, 'store', {})
    def __getattr__(self, n):
        LOG.append(('getattr', self.tag, n))
        return L(self.tag + '.' + n, self.v + 1)
    def __setattr__(self, n, val):
        LOG.append(('setattr', self.tag, n, repr(val)))
    def __getitem__(self, k):
        LOG.append(('getitem', self.tag, repr(k)))
        return L(self.tag + '[]', self.v + 2)
    def __setitem__(self, k, val):
        LOG.append(('setitem', self.tag, repr(k), repr(val)))
    def __delitem__(self, k):
        LOG.append(('delitem', self.tag, repr(k)))
    def __add__(self, o):
        LOG.append(('add', self.tag, repr(o)))
        return self.v + _num(o)
    def __radd__(self, o):
        LOG.append(('radd', self.tag, repr(o)))
        return self.v + _num(o)
    def __neg__(self):
        LOG.append(('neg', self.tag))
        return -self.v
    def __hash__(self):
        return 7
    def __eq__(self, o):
        return self is o
    def __lt__(self, o):
        LOG.append(('lt', self.tag, repr(o)))
        return self.v < _num(o)
    def __call__(self, *a, **k):
        LOG.append(('call', self.tag, repr(a), repr(sorted(k.items()))))
        return self.v
    def __iter__(self):
        LOG.append(('iter', self.tag))
        return iter([1, 2])
    def __enter__(self):
        LOG.append(('enter', self.tag))
        return self
    def __exit__(self, *a):
        LOG.append(('exit', self.tag))
        return False
    def __bool__(self):
        LOG.append(('bool', self.tag))
        return self.v % 2 == 0
    def __repr__(self):
        return 'L(%s)' % self.tag
class E1(Exception):
    pass
def DECO(x):
    return lambda fn: fn
def F(*a, **k):
    LOG.append(('F', repr(a), repr(sorted(k.items()))))
    return len(a) + len(k)
'''


class G(object):

  def __init__(self, seed, lazy_ok):
    self.rng = random.Random(seed)
    self.t = 0
    self.lazy_ok = lazy_ok
    self.def_orders = []   # per decorated def: (tags in the decorator expression, tags in the default values)
    self.kinds = []
    self.has_lazy = False

  def tag(self):
    self.t += 1
    return 't%d' % self.t

  def leaf(self):
    r = self.rng.random()
    if r < 0.45:
      return "T(%r, %s)" % (self.tag(), self.rng.choice(['a', 'b', '1', '2', 'a + b']))
    if r < 0.6:
      return "L(%r, a)" % self.tag()
    if r < 0.8:
      return self.rng.choice(['a', 'b', 'c'])
    return str(self.rng.choice([0, 1, 2, 'None', "'s'"]))

  def expr(self, d=0):
    rng = self.rng
    if d >= 3 or rng.random() < 0.25:
      return self.leaf()
    k = rng.choice(['call', 'call_kw', 'call_star', 'attr', 'subscript', 'slice', 'binop', 'unary', 'compare',
                    'list', 'tuple', 'dict', 'set', 'method', 'nested_call'] +
                   (['boolop', 'ifexp', 'lambda', 'listcomp', 'chain'] if self.lazy_ok else []))
    self.kinds.append(k)
    e = lambda: self.expr(d + 1)
    if k == 'call':
      return 'F(%s, %s)' % (e(), e())
    if k == 'call_kw':
      return 'F(%s, k=%s, j=%s)' % (e(), e(), e())
    if k == 'call_star':
      return 'F(*[%s, %s], **{"z": %s})' % (e(), e(), e())
    if k == 'nested_call':
      return 'F(F(%s), F(%s, F(%s)))' % (e(), e(), e())
    if k == 'attr':
      return 'L(%r, %s).x.y' % (self.tag(), self.leaf())
    if k == 'method':
      return 'L(%r).m(%s, %s)' % (self.tag(), e(), e())
    if k == 'subscript':
      return 'L(%r)[%s]' % (self.tag(), e())
    if k == 'slice':
      return 'L(%r)[%s:%s]' % (self.tag(), e(), e()) if rng.random() < 0.6 else 'L(%r)[%s:%s:%s, %s]' % (self.tag(), e(), e(), e(), e())
    if k == 'binop':
      return '(L(%r, %s) + %s)' % (self.tag(), self.leaf(), e())
    if k == 'unary':
      return '(-L(%r, %s))' % (self.tag(), e())
    if k == 'compare':
      return '(L(%r) < %s)' % (self.tag(), e())
    if k == 'list':
      return '[%s, %s]' % (e(), e())
    if k == 'tuple':
      return '(%s, %s)' % (e(), e())
    if k == 'dict':
      return '{%s: %s, %s: %s}' % (self.hashable(), e(), self.hashable(), e())
    if k == 'set':
      return '{%s, %s}' % (self.hashable(), self.hashable())
    self.has_lazy = True
    if k == 'boolop':
      return '(%s %s %s)' % (e(), rng.choice(['and', 'or']), e())
    if k == 'ifexp':
      return '(%s if %s else %s)' % (e(), e(), e())
    if k == 'lambda':
      return '(lambda q: F(q, %s))(%s)' % (e(), e())
    if k == 'listcomp':
      return '[F(i_, %s) for i_ in range(2)]' % e()
    if k == 'chain':
      return '(T(%r, 1) < T(%r, a) < T(%r, 3))' % (self.tag(), self.tag(), self.tag())
    return "f'{%s}'" % e()

  def hashable(self):
    return "T(%r, %s)" % (self.tag(), self.rng.choice(["'k1'", "'k2'", '1', 'a']))

  def stmt(self, ind, d=0):
    rng = self.rng
    pad = '    ' * ind
    k = rng.choice(['assign', 'expr', 'augassign', 'return_maybe', 'store_sub', 'store_attr', 'store_deep', 'del_sub',
                    'tuple_assign', 'if', 'for', 'with', 'try', 'raise_maybe', 'print_like', 'if', 'for', 'assign', 'expr'] +
                   (['while', 'assert'] if self.lazy_ok else []) + ['defdeco', 'defdeco'])
    self.kinds.append('s_' + k)
    if d >= 2 and k in ('if', 'for', 'with', 'try', 'while'):
      k = 'assign'
    e = self.expr
    if k == 'assign':
      return [pad + 'r = %s' % e()]
    if k == 'expr':
      return [pad + e()]
    if k == 'augassign':
      return [pad + 'n += %s' % ('F(%s)' % e())]
    if k == 'return_maybe':
      return [pad + 'if a > 5:', pad + '    return %s' % e()]
    if k == 'raise_maybe':
      return [pad + 'if a > 6:', pad + '    raise E1(%s)' % e()]
    if k == 'store_sub':
      return [pad + 'L(%r)[%s] = %s' % (self.tag(), e(), e())]
    if k == 'store_attr':
      return [pad + 'L(%r, %s).z = %s' % (self.tag(), e(), e())]
    if k == 'store_deep':
      return [pad + 'L(%r).y[%s].z = %s' % (self.tag(), e(), e())]
    if k == 'del_sub':
      return [pad + 'del L(%r)[%s]' % (self.tag(), e())]
    if k == 'tuple_assign':
      return [pad + 'r, m = %s, %s' % (e(), e())]
    if k == 'print_like':
      return [pad + 'F(%s, %s, k=%s)' % (e(), e(), e())]
    if k == 'assert':
      self.has_lazy = True
      return [pad + 'assert a < 100']
    if k == 'defdeco':
      # decorator expressions are evaluated before default values, both when the def statement runs; a transformer
      # may reject compound ones, but if it accepts them the order has to stay
      self.has_lazy = True
      self.t += 1
      nm = 'in_%d' % self.t
      t0 = self.t
      deco = e()
      t1 = self.t
      d1, d2 = e(), e()
      t2 = self.t
      # tags of the T/L calls inside the decorator expression and inside the default values
      self.def_orders.append((['t%d' % i for i in range(t0 + 1, t1 + 1)], ['t%d' % i for i in range(t1 + 1, t2 + 1)]))
      return [pad + '@DECO(%s)' % deco,
              pad + 'def %s(p=%s, *, q=%s):' % (nm, d1, d2),
              pad + '    return p',
              pad + 'r = %s()' % nm]
    if k == 'if':
      out = [pad + 'if %s:' % e()]
      out += self.block(ind + 1, d + 1)
      if rng.random() < 0.5:
        out += [pad + 'else:'] + self.block(ind + 1, d + 1)
      return out
    if k == 'for':
      out = [pad + 'for it_%d in %s:' % (self.t, rng.choice(['L(%r)' % self.tag(), '[%s, %s]' % (e(), e())]))] + self.block(ind + 1, d + 1)
      if rng.random() < 0.3:
        self.kinds.append('s_for_else')
        out += [pad + 'else:'] + self.block(ind + 1, d + 1)
      return out
    if k == 'with':
      return [pad + 'with L(%r, %s) as w_%d:' % (self.tag(), e(), self.t)] + self.block(ind + 1, d + 1)
    if k == 'while':
      self.t += 1
      c = 'c_%d' % self.t
      if self.lazy_ok and rng.random() < 0.5:
        self.has_lazy = True
        return [pad + '%s = 0' % c, pad + 'while T(%r, %s) < 2:' % (self.tag(), c), pad + '    %s += 1' % c] + self.block(ind + 1, d + 1)
      self.has_lazy = True   # any comparison makes the while test non-trivial
      return [pad + '%s = 0' % c, pad + 'while %s < 2:' % c, pad + '    %s += 1' % c] + self.block(ind + 1, d + 1)
    if k == 'try':
      matcher = 'E1'
      if rng.random() < 0.4:
        self.kinds.append('s_try_matcher_expr')
        self.has_lazy = True   # matchers are evaluated only when an exception reaches the handler
        matcher = rng.choice(["T(%r, E1)" % self.tag(), "(T(%r, KeyError), T(%r, E1))" % (self.tag(), self.tag())])
      return ([pad + 'try:'] + self.block(ind + 1, d + 1) + [pad + 'except %s:' % matcher] + self.block(ind + 1, d + 1) +
              ([pad + 'finally:'] + self.block(ind + 1, d + 1) if rng.random() < 0.4 else []))
    raise KeyError(k)

  def block(self, ind, d):
    out = []
    for _ in range(self.rng.randint(1, 2)):
      out += self.stmt(ind, d)
    return out

  def function(self):
    lines = ['def f(a, b, c):', '    r = 0', '    n = 0', '    m = 0']
    for _ in range(self.rng.randint(2, 5)):
      lines += self.stmt(1)
    lines.append('    return (r, n, m)')
    return '\n'.join(lines) + '\n'


def plan(tier, seed):
  n = 300 if tier == 'quick' else 3000
  return [{'seed': seed, 'slice': k, 'n': n, 'hashseed': (seed * 16 + k) % 4294967295} for k in range(16)]


def context():
  from malt.pyct import transformer
  info = transformer.EntityInfo(name='f', source_code=None, source_file=None, future_features=(), namespace=None)
  return transformer.Context(info, None, None)


def random_config(rng):
  from malt.pyct.common_transformers import anf
  pats = []
  choices = [
      (anf.ASTEdgePattern(ast.Call, 'args', anf.ANY), anf.REPLACE),
      (anf.ASTEdgePattern(ast.Call, 'func', anf.ANY), anf.LEAVE),
      (anf.ASTEdgePattern(ast.If, 'test', anf.ANY), anf.REPLACE),
      (anf.ASTEdgePattern(ast.Subscript, anf.ANY, anf.ANY), anf.REPLACE),
      (anf.ASTEdgePattern(anf.ANY, 'value', ast.Call), anf.REPLACE),
      (anf.ASTEdgePattern(ast.BinOp, anf.ANY, ast.expr), anf.REPLACE),
      (anf.ASTEdgePattern(anf.ANY, anf.ANY, ast.Constant), anf.LEAVE),
      (anf.ASTEdgePattern(anf.ANY, anf.ANY, ast.Constant), anf.REPLACE),
      (anf.ASTEdgePattern(ast.Return, anf.ANY, anf.ANY), anf.REPLACE),
      (anf.ASTEdgePattern(anf.ANY, anf.ANY, (ast.List, ast.Tuple, ast.Dict)), anf.REPLACE),
      (anf.ASTEdgePattern(anf.ANY, anf.ANY, ast.Attribute), lambda p, f, c: isinstance(c.value, ast.Call)),
      (anf.ASTEdgePattern(anf.ANY, anf.ANY, ast.expr), anf.REPLACE),
      (anf.ANY, anf.LEAVE),
      # field names that contain, or are contained in, other field names
      (anf.ASTEdgePattern(anf.ANY, 'values', anf.ANY), anf.LEAVE),
      (anf.ASTEdgePattern(anf.ANY, 'value', anf.ANY), anf.REPLACE),
      (anf.ASTEdgePattern(anf.ANY, 'elts', anf.ANY), anf.LEAVE),
      (anf.ASTEdgePattern(anf.ANY, 'args', ast.expr), anf.LEAVE),
      (anf.ASTEdgePattern(anf.ANY, 'targets', anf.ANY), anf.LEAVE),
      (anf.ASTEdgePattern(anf.ANY, 'keywords', anf.ANY), anf.LEAVE),
      (anf.ASTEdgePattern(ast.Compare, 'comparators', anf.ANY), anf.REPLACE),
      (anf.ASTEdgePattern(anf.ANY, 'slice', anf.ANY), anf.REPLACE),
  ]
  for _ in range(rng.randint(1, 4)):
    pats.append(rng.choice(choices))
  return pats


def should_transform(config, parent, field, child):
  from malt.pyct.common_transformers import anf
  if config is None:
    config = [(anf.ASTEdgePattern(anf.ANY, anf.ANY, (ast.Constant, ast.Name)), anf.LEAVE),
              (anf.ASTEdgePattern(anf.ANY, anf.ANY, ast.expr), anf.REPLACE)]
  for pat, res in config:
    if pat is anf.ANY or pattern_matches(pat, parent, field, child):
      return res(parent, field, child)
  return False


def pattern_matches(pat, parent, field, child):
  """The documented meaning of an edge pattern, written independently of ASTEdgePattern.matches: parent and child by
  isinstance, the field by string equality, anf.ANY matches anything."""
  from malt.pyct.common_transformers import anf
  if pat.parent is not anf.ANY and not isinstance(parent, pat.parent):
    return False
  if pat.field is not anf.ANY and not (isinstance(field, str) and field == pat.field):
    return False
  return pat.child is anf.ANY or isinstance(child, pat.child)


def anf_shape_problems(tree, config):
  """Positions that the configuration marks REPLACE must hold a Name/literal."""
  probs = []
  temps = {}

  def trivial(n):
    return isinstance(n, ast.Name) or (isinstance(n, ast.Constant))

  def check_child(parent, field, child):
    if child is None:
      return
    if isinstance(child, list):
      for c in child:
        check_child(parent, field, c)
      return
    if isinstance(child, ast.keyword):
      check_child(parent, field, child.value)
      return
    if isinstance(child, (ast.Starred, ast.withitem, ast.Slice)):
      for f2 in child._fields:
        if not f2.startswith('__'):
          check_child(parent, field, getattr(child, f2, None))
      return
    if isinstance(child, ast.Tuple) and any(isinstance(e, ast.Slice) for e in child.elts):
      for e in child.elts:
        check_child(parent, field, e)
      return
    if not isinstance(child, ast.expr):
      return
    if isinstance(getattr(child, 'ctx', None), (ast.Store, ast.Del)):
      return
    if isinstance(child, ast.Name):
      return
    if isinstance(parent, (ast.FunctionDef, ast.arguments, ast.arg)):
      # decorators, default values and annotations of a nested def are not among the operand positions the
      # property lists; only the evaluation order is judged for them
      return
    if should_transform(config, parent, field, child):
      probs.append('%s.%s holds %s although the configuration asks for it to be named' % (
          type(parent).__name__, field, ast.unparse(child)[:60]))

  for n in ast.walk(tree):
    if isinstance(n, ast.Assign) and len(n.targets) == 1 and isinstance(n.targets[0], ast.Name) and n.targets[0].id.startswith('tmp_'):
      temps[n.targets[0].id] = temps.get(n.targets[0].id, 0) + 1
    if isinstance(n, (ast.Assign, ast.AugAssign, ast.Delete, ast.Expr, ast.AnnAssign)):
      continue   # documented: their direct children are never named
    if isinstance(n, (ast.Lambda, ast.ListComp, ast.SetComp, ast.DictComp, ast.GeneratorExp, ast.BoolOp, ast.IfExp,
                      ast.JoinedStr, ast.FormattedValue, ast.Assert, ast.While, ast.Starred, ast.withitem, ast.Slice,
                      ast.keyword)):
      continue   # only accepted when trivial; nothing to name
    if isinstance(n, (ast.Tuple, ast.List)) and isinstance(n.ctx, ast.Store):
      continue
    if isinstance(n, (ast.stmt, ast.expr)):
      for f in n._fields:
        if f.startswith('__') or f in ('body', 'orelse', 'finalbody', 'handlers', 'ctx', 'op', 'ops', 'target', 'targets'):
          continue
        if isinstance(n, ast.For) and f != 'iter':
          continue
        if isinstance(n, ast.With) and f != 'items':
          continue
        check_child(n, f, getattr(n, f, None))
  return probs, temps


def run(fn, m, args):
  del m.LOG[:]
  try:
    r = ('ret', repr(fn(*args)))
  except Exception as e:  # pylint:disable=broad-except
    r = ('exc', type(e).__name__)
  return r, [tuple(x) for x in m.LOG]


class _Fixed(object):
  has_lazy = False
  kinds = ['fixed']


def judge(cid, seed, fixed_body=None):
  from malt.pyct import parser
  from malt.pyct.common_transformers import anf
  rng = random.Random(seed)
  lazy_ok = rng.random() < 0.35
  if fixed_body is not None:
    g = _Fixed()
    body = fixed_body
    use_cfg = False
    config = None
  else:
    g = G(seed, lazy_ok)
    body = g.function()
    use_cfg = rng.random() < 0.4
    config = random_config(rng) if use_cfg else None
  out = {'case': cid, 'verdict': 'ok', 'counters': {}}
  src = PRE + body
  try:
    compile(src, 'c18', 'exec')
  except SyntaxError as e:
    out['verdict'] = 'inconclusive'
    out['detail'] = 'generator produced invalid python: %s\n%s' % (e, body)
    return out
  node = ast.parse(body).body[0]
  try:
    new = anf.transform(node, context(), config=config)
  except ValueError as e:
    # rejection: legitimate only for the lazy constructs
    if g.has_lazy:
      out['counters']['rejected_lazy'] = 1
      out['nontrivial'] = True
      out['sig'] = 'rejected|' + ','.join(sorted(set(g.kinds)))
      return out
    out['verdict'] = 'violation'
    out['detail'] = 'transform rejected a function without lazy constructs: %s\n--- function ---\n%s' % (e, body)
    out['witness'] = {'seed': seed}
    return out
  except Exception as e:  # pylint:disable=broad-except
    if g.has_lazy:
      # any error is a rejection; the property does not prescribe its type
      out['counters']['rejected_lazy'] = 1
      out['counters']['rejected_lazy_with_' + type(e).__name__] = 1
      out['nontrivial'] = True
      out['sig'] = 'rejected|' + ','.join(sorted(set(g.kinds)))
      return out
    out['verdict'] = 'violation'
    out['detail'] = 'transform failed with %s: %s\n--- function ---\n%s' % (type(e).__name__, str(e)[:200], body)
    out['witness'] = {'seed': seed}
    return out
  text = parser.unparse(new, include_encoding_marker=False)
  probs = []
  reorder_only = []
  try:
    code = compile(PRE + text + '\n', 'c18out', 'exec')
  except SyntaxError as e:
    probs.append('output does not compile: %s' % e)
    code = None
  if code is not None:
    mo, mt = {}, {}
    exec(compile(src, 'c18in', 'exec'), mo)  # pylint:disable=exec-used
    exec(code, mt)  # pylint:disable=exec-used

    class NS(object):
      pass
    o, t = NS(), NS()
    o.LOG, t.LOG = mo['LOG'], mt['LOG']
    for args in [(1, 2, 3), (6, 0, 1), (7, 1, 0), (0, 0, 0)]:
      ro, lo = run(mo['f'], o, args)
      rt, lt = run(mt['f'], t, args)
      out['counters']['run_pairs'] = out['counters'].get('run_pairs', 0) + 1
      out['counters']['log_events'] = out['counters'].get('log_events', 0) + len(lo)
      if ro != rt:
        probs.append('f%r: original %r, transformed %r' % (args, ro, rt))
        break
      if lo != lt:
        n = 0
        while n < min(len(lo), len(lt)) and lo[n] == lt[n]:
          n += 1
        same_events = sorted(map(repr, lo)) == sorted(map(repr, lt))
        probs.append('f%r: side effects %s at event %d: original %r, transformed %r' % (
            args, 'reordered (same events, different order)' if same_events else 'differ', n, lo[n:n + 3], lt[n:n + 3]))
        if same_events:
          reorder_only.append(1)
          # decorator expressions run before default values: a reordering across that boundary is not the recorded
          # hoisting-order mechanism (which the unchanged transformer never exhibits there: it rejects such defs)
          for deco_tags, default_tags in getattr(g, 'def_orders', []):
            pos = {}
            for idx, ev in enumerate(lt):
              for tg in deco_tags + default_tags:
                if repr(tg) in repr(ev) and tg not in pos:
                  pos[tg] = idx
            dd = [pos[t_] for t_ in deco_tags if t_ in pos]
            ff = [pos[t_] for t_ in default_tags if t_ in pos]
            if dd and ff and max(dd) > min(ff):
              probs.append('a default value of a decorated def was evaluated before its decorator expression')
        break
    reparsed = ast.parse(text)
    sp, temps = anf_shape_problems(reparsed, config)
    probs.extend(sp[:2])
    dup = [k for k, v in temps.items() if v > 1]
    if dup:
      probs.append('temporaries assigned more than once: %s' % dup)
    out['counters']['temporaries'] = len(temps)
    if g.has_lazy and not probs:
      out['counters']['lazy_accepted_and_equivalent'] = 1
  if probs:
    out['verdict'] = 'violation'
    out['detail'] = '; '.join(probs[:3]) + '\n--- function ---\n%s--- transformed (%s config) ---\n%s' % (
        body, 'random' if use_cfg else 'default', text)
    out['witness'] = {'seed': seed}
    if len(probs) == 1 and reorder_only:
      # the same events in another order and nothing else wrong: the hoisting-order mechanism
      out['mechanism'] = 'anf-hoisting-not-in-evaluation-order'
    return out
  out['nontrivial'] = out['counters'].get('temporaries', 0) > 0
  out['sig'] = ('cfg|' if use_cfg else 'def|') + ','.join(sorted(set(g.kinds)))
  out['body'] = body
  out['text'] = text
  return out


def run_slice(spec):
  for i in range(spec['n']):
    cid = 'C18/%d/%d/%d' % (spec['seed'], spec['slice'], i)
    out = judge(cid, cid)
    b, t = out.pop('body', None), out.pop('text', None)
    if out['verdict'] == 'ok' and i % 25 == 3 and b:
      out['sample'] = {'case': cid, 'function': b, 'transformed': t[:1500]}
    yield out


def replay(w):
  out = judge('replay', w.get('seed', 'fixed'), fixed_body=w.get('body'))
  out.pop('body', None)
  out.pop('text', None)
  return out
