"""C16 — conversion-status context is restored on every exit and isolated per thread.

Random call trees whose nodes are real wrappers (convert, do_not_convert,
internal convert with each status, call_with_unspecified_conversion_status,
plain / recursively converted callees). Probes are plain calls to
malt.control_status_ctx() placed in the node functions (the client boundary);
the oracle is a 20-line sequential model of the documented push/pop rules.
"""
import collections
import random
import sys
import threading

from vf import diff

ID = 'C16'
LEVEL = 'exploration'
RULE = ('random call trees (<= 9 nodes, depth <= 6) over 8 node kinds with one exception raised at a chosen node and caught '
        'at a chosen ancestor (or escaping), run by 1..32 threads concurrently with a tiny switch interval, the context objects '
        'handed to internal convert being shared by all threads and re-entered at several depths; every probe is one event; '
        'non-trivial = tree with >= 3 nodes and >= 2 distinct kinds whose probes all ran; distinct = (tree shape+kinds, raise node, '
        'catch node, thread count)')
ASSUMPTIONS = ['probe = malt.control_status_ctx() called from the node function; identity compared with `is`',
               'expected status follows the documented rules: DISABLED inside do_not_convert, ENABLED inside a user-requested '
               'converted function unless the surrounding context is DISABLED, the passed context object inside internal convert']
MIN_JUDGED = {'quick': 200, 'thorough': 2000}
SLICE_TIMEOUT = {'quick': 1200, 'thorough': 5400}

KINDS = ['convert', 'dnc', 'ic_E', 'ic_D', 'ic_U', 'unspec', 'plain', 'convert_nonrec', 'lam_convert', 'lam_plain']

HEADER = '''\
import threading
import malt
from malt.impl import api as _api
from malt.core import ag_ctx as _ag_ctx
TL = threading.local()
CTX = malt.control_status_ctx
TID = threading.get_ident
class E1(Exception):
    pass
C_E = _ag_ctx.ControlStatusCtx(_ag_ctx.Status.ENABLED)
C_D = _ag_ctx.ControlStatusCtx(_ag_ctx.Status.DISABLED)
C_U = _ag_ctx.ControlStatusCtx(_ag_ctx.Status.UNSPECIFIED)
def CALLC(k, c, w, catches):
    b = CTX()
    try:
        w()
    except E1:
        if not catches:
            raise
        TL.log.append((k, 'caught', CTX(), TID()))
    finally:
        TL.log.append((k, 'after', c, CTX() is b, TID()))
def RAISE(k):
    raise E1('n%d' % k)
def WRAP(kind, fn):
    if kind in ('convert', 'lam_convert'):
        return _api.convert(recursive=True)(fn)
    if kind == 'convert_nonrec':
        return _api.convert(recursive=False)(fn)
    if kind == 'dnc':
        return _api.do_not_convert(fn)
    if kind == 'ic_E':
        return _api.internal_convert(fn, C_E)
    if kind == 'ic_D':
        return _api.internal_convert(fn, C_D)
    if kind == 'ic_U':
        return _api.internal_convert(fn, C_U)
    if kind == 'unspec':
        return _api.call_with_unspecified_conversion_status(fn)
    return fn
'''


def gen_tree(rng, max_nodes=9):
  """Returns list of nodes: dict(id, kind, parent, children)."""
  n = rng.randint(2, max_nodes)
  nodes = [{'id': 0, 'kind': rng.choice(KINDS), 'parent': None, 'children': []}]
  for i in range(1, n):
    # bias toward deep chains
    p = rng.choice(nodes[-2:]) if rng.random() < 0.7 else rng.choice(nodes)
    depth = 0
    q = p
    while q['parent'] is not None:
      q = nodes[q['parent']]
      depth += 1
    if depth >= 5 or len(p['children']) >= 2:
      p = nodes[0] if len(nodes[0]['children']) < 2 else rng.choice([x for x in nodes if len(x['children']) < 2] or nodes)
    nodes.append({'id': i, 'kind': rng.choice(KINDS), 'parent': p['id'], 'children': []})
    p['children'].append(i)
  return nodes


def ancestors(nodes, k):
  out = []
  p = nodes[k]['parent']
  while p is not None:
    out.append(p)
    p = nodes[p]['parent']
  return out


def gen_module(nodes, raise_at, catch_at, tag):
  L = [HEADER]
  for nd in reversed(nodes):
    k = nd['id']
    if nd['kind'].startswith('lam_'):
      parts = ["TL.log.append((%d, 'in', CTX(), TID()))" % k]
      for c in nd['children']:
        parts.append('CALLC(%d, %d, W%d, %r)' % (k, c, c, catch_at == k))
      if raise_at == k:
        parts.append('RAISE(%d)' % k)
      parts.append('%d' % k)
      L.append('n%d = lambda: (%s)[-1]' % (k, ', '.join(parts)))
      L.append("W%d = WRAP(%r, n%d)" % (k, nd['kind'], k))
      continue
    L.append('def n%d():' % k)
    L.append("    TL.log.append((%d, 'in', CTX(), TID()))" % k)
    for c in nd['children']:
      L.append('    b%d = CTX()' % c)
      L.append('    try:')
      L.append('        W%d()' % c)
      if catch_at == k:
        L.append('    except E1:')
        L.append("        TL.log.append((%d, 'caught', CTX(), TID()))" % k)
      L.append('    finally:')
      L.append("        TL.log.append((%d, 'after', %d, CTX() is b%d, TID()))" % (k, c, c))
    if raise_at == k:
      L.append("    raise E1('n%d')" % k)
    L.append('    return %d' % k)
    L.append("W%d = WRAP(%r, n%d)" % (k, nd['kind'], k))
  return '\n'.join(L) + '\n'


def expected_inside(nodes):
  """Static model. Returns {id: ('obj', name) | ('fresh', status) | ('inherit',)} and the pushes per node."""
  exp = {}
  status = {}

  def visit(k, cur_status):
    kind = nodes[k]['kind']
    if kind in ('convert', 'convert_nonrec', 'lam_convert'):
      if cur_status == 'DISABLED':
        exp[k] = ('inherit',)
        st = cur_status
      else:
        exp[k] = ('fresh', 'ENABLED')
        st = 'ENABLED'
    elif kind == 'dnc' or kind == 'ic_D':
      exp[k] = ('fresh', 'DISABLED')
      st = 'DISABLED'
    elif kind == 'ic_E':
      exp[k] = ('obj', 'C_E')
      st = 'ENABLED'
    elif kind == 'ic_U':
      exp[k] = ('obj', 'C_U')
      st = 'UNSPECIFIED'
    elif kind == 'unspec':
      exp[k] = ('fresh', 'UNSPECIFIED')
      st = 'UNSPECIFIED'
    else:
      exp[k] = ('inherit',)
      st = cur_status
    status[k] = st
    for c in nodes[k]['children']:
      visit(c, st)

  visit(0, 'UNSPECIFIED')
  return exp


def check_log(m, nodes, exp, log, base, tid, raise_at, catch_at, escaped):
  """Checks one thread's event list of one tree execution. Returns problems."""
  probs = []
  inside = {}
  seen_in = set()
  for ev in log:
    k, what = ev[0], ev[1]
    if ev[-1] != tid:
      probs.append('event of node %d recorded with thread id %r in the list of thread %r' % (k, ev[-1], tid))
    if what == 'in':
      ctx = ev[2]
      seen_in.add(k)
      par = nodes[k]['parent']
      parent_ctx = inside.get(par, base) if par is not None else base
      e = exp[k]
      owner = getattr(ctx, '_vf_tid', None)
      if owner not in (tid, 'shared'):
        probs.append('node %d (%s) observed a context object created by another thread (%r)' % (k, nodes[k]['kind'], owner))
      if e[0] == 'inherit':
        if ctx is not parent_ctx:
          probs.append('node %d (%s): context inside is %r, expected the caller\'s own object %r' % (k, nodes[k]['kind'], ctx, parent_ctx))
      elif e[0] == 'obj':
        if ctx is not getattr(m, e[1]):
          probs.append('node %d (%s): context inside is %r, expected the object passed to internal convert (%s)' % (k, nodes[k]['kind'], ctx, e[1]))
      else:
        if ctx.status.name != e[1]:
          probs.append('node %d (%s): status inside is %s, expected %s' % (k, nodes[k]['kind'], ctx.status.name, e[1]))
        if ctx is parent_ctx:
          probs.append('node %d (%s): no new context was entered' % (k, nodes[k]['kind']))
      inside[k] = ctx
    elif what == 'after':
      if ev[3] is not True:
        probs.append('node %d: after the call to child %d (%s) the current context is not the object it was before the call' % (
            k, ev[2], nodes[ev[2]]['kind']))
    elif what == 'caught':
      if ev[2] is not inside.get(k):
        probs.append('node %d: in its except handler the context is %r, not its own %r' % (k, ev[2], inside.get(k)))
  return probs


def run_tree(m, nodes, raise_at, catch_at, nthreads, reps, switch):
  from malt.core import ag_ctx
  exp = expected_inside(nodes)
  probs = []
  counters = collections.Counter()
  lock = threading.Lock()
  barrier = threading.Barrier(nthreads)
  escapes = raise_at is not None and catch_at is None

  def worker(idx):
    tid = threading.get_ident()
    try:
      barrier.wait(timeout=30)
    except threading.BrokenBarrierError:
      pass
    base = ag_ctx.control_status_ctx()
    base._vf_tid = tid
    mine = []
    for r in range(reps):
      m.TL.log = []
      esc = False
      try:
        m.W0()
      except m.E1:
        esc = True
      except Exception as e:  # pylint:disable=broad-except
        mine.append('unexpected %s out of the tree: %s' % (type(e).__name__, str(e)[:200]))
      after = ag_ctx.control_status_ctx()
      if after is not base:
        mine.append('after the outermost call %s the context is %r, not the thread\'s original %r' % (
            'raised' if esc else 'returned', after, base))
      st = getattr(ag_ctx.stacks, 'control_status', None)
      if isinstance(st, list) and len(st) != 1:     # only where the implementation keeps a per-thread list
        mine.append('context stack depth is %d after the outermost call' % len(st))
        del st[1:]
      if esc != escapes:
        mine.append('exception %s' % ('escaped although an ancestor catches it' if esc else 'did not escape'))
      mine.extend(check_log(m, nodes, exp, m.TL.log, base, tid, raise_at, catch_at, esc))
      with lock:
        counters['probe_events'] += len(m.TL.log)
        counters['tree_runs'] += 1
      # history: a function that has just run as a (recursively converted) callee is now converted at the user's
      # request; inside it the status is ENABLED again, whatever was cached for it as a callee
      if not mine and r == 0:
        for nd in nodes:
          if nd['kind'] == 'plain' and not nd['children'] and nd['id'] != raise_at and nd['parent'] is not None:
            m.TL.log = []
            try:
              m._api.convert(recursive=True)(getattr(m, 'n%d' % nd['id']))()
            except Exception as e:  # pylint:disable=broad-except
              mine.append('node %d converted directly after the tree ran: %s: %s' % (nd['id'], type(e).__name__, str(e)[:100]))
              break
            ins = [ev for ev in m.TL.log if ev[1] == 'in']
            with lock:
              counters['direct_conversions_after_callee_use'] += 1
            if not ins or ins[0][2].status.name != 'ENABLED' or ins[0][2] is base:
              mine.append('node %d (plain) converted at the user\'s request after it had run as a callee: status inside is %s, '
                          'expected a fresh ENABLED context' % (nd['id'], ins[0][2].status.name if ins else None))
              break
            if ag_ctx.control_status_ctx() is not base:
              mine.append('after the direct conversion of node %d the context is not the thread\'s original' % nd['id'])
              break
      if mine:
        break
    if mine:
      with lock:
        probs.extend(mine[:3])

  old = sys.getswitchinterval()
  sys.setswitchinterval(switch)
  try:
    ts = [threading.Thread(target=worker, args=(i,)) for i in range(nthreads)]
    for t in ts:
      t.start()
    for t in ts:
      t.join(120)
      if t.is_alive():
        counters['watchdog'] += 1
  finally:
    sys.setswitchinterval(old)
  return probs, counters


class CtxTagger(object):
  """Tags every ControlStatusCtx with the thread that created it."""

  def __enter__(self):
    from malt.core import ag_ctx
    self.cls = ag_ctx.ControlStatusCtx
    self.real = self.cls.__init__
    real = self.real

    def __init__(obj, *a, **k):
      real(obj, *a, **k)
      obj._vf_tid = threading.get_ident()

    self.cls.__init__ = __init__
    return self

  def __exit__(self, *a):
    self.cls.__init__ = self.real


def judge(cid, seed, nthreads, reps, switch):
  rng = random.Random(seed)
  nodes = gen_tree(rng)
  raise_at = rng.choice([None] + [n['id'] for n in nodes] * 2)
  catch_at = None
  if raise_at is not None:
    anc = ancestors(nodes, raise_at)
    catch_at = rng.choice([None] + anc) if anc else None
  src = gen_module(nodes, raise_at, catch_at, cid)
  out = {'case': cid, 'verdict': 'ok', 'counters': {}}
  with CtxTagger():
    m = diff.load_instance(src, 'c16')
    for nm in ('C_E', 'C_D', 'C_U'):
      getattr(m, nm)._vf_tid = 'shared'
    try:
      probs, counters = run_tree(m, nodes, raise_at, catch_at, nthreads, reps, switch)
    finally:
      diff.unload(m)
  out['counters'] = dict(counters)
  kinds = [n['kind'] for n in nodes]
  shape = '/'.join('%s<%s' % (n['kind'], n['parent']) for n in nodes)
  if counters.get('watchdog'):
    out['verdict'] = 'inconclusive'
    out['detail'] = 'thread did not finish within the watchdog'
    return out
  if probs:
    out['verdict'] = 'violation'
    out['detail'] = '; '.join(probs[:3]) + '\ntree: %s raise_at=%s catch_at=%s threads=%d\n%s' % (
        shape, raise_at, catch_at, nthreads, src[len(HEADER):])
    out['witness'] = {'seed': seed, 'nthreads': nthreads, 'reps': reps, 'switch': switch}
    return out
  out['nontrivial'] = len(nodes) >= 3 and len(set(kinds)) >= 2 and counters['probe_events'] > 0
  out['sig'] = '%s|r%s|c%s|t%d' % (shape, raise_at, catch_at, nthreads)
  out['tree'] = {'nodes': [(n['id'], n['kind'], n['parent']) for n in nodes], 'raise_at': raise_at, 'catch_at': catch_at,
                 'threads': nthreads, 'probe_events': counters['probe_events']}
  return out


def plan(tier, seed):
  n = 20 if tier == 'quick' else 200
  return [{'seed': seed, 'slice': k, 'n': n, 'hashseed': (seed * 16 + k) % 4294967295} for k in range(16)]


def run_slice(spec):
  for i in range(spec['n']):
    cid = 'C16/%d/%d/%d' % (spec['seed'], spec['slice'], i)
    rng = random.Random(cid + 'cfg')
    nthreads = rng.choice([1, 1, 2, 4, 8, 16, 32])
    reps = 3 if nthreads > 8 else 6
    switch = rng.choice([5e-3, 1e-4, 1e-6])
    out = judge(cid, cid, nthreads, reps, switch)
    tr = out.pop('tree', None)
    if out['verdict'] == 'ok' and i % 8 == 2:
      out['sample'] = tr
    yield out


def replay(w):
  out = judge('replay', w['seed'], w['nthreads'], w['reps'], w['switch'])
  out.pop('tree', None)
  return out
