"""C08 — scope (activity) analysis matches Python's own binding rules.

Static oracle: CPython's compiler (symtable) on the same source. Dynamic
oracle: the reads, bindings and deletes that the instrumented twin actually
performed, attributed to the statement whose Scope annotation must list them.
"""
import ast
import symtable

from vf import stream
from vf.gen import grammar
from vf.gen import scopes
from vf.instr import subject as subj

ID = 'C08'
LEVEL = 'exploration'
RULE = ('(static) generated "scope soup" functions (nesting of defs, lambdas, classes, comprehensions; global/nonlocal; all '
        'parameter kinds; annotations, decorators, defaults; imports; with/except/for targets; attribute and subscript targets): '
        'for every function and lambda the analysis\' parameters, bound-minus-global names, declared globals, nonlocals and '
        'closure classification are compared with symtable; (dynamic) programs of profile c08 (c06 plus comprehensions whose first iterable mentions the name of its own target) run as twins: every executed read / '
        'binding / delete must be in the read / modified / deleted set of the statement it belongs to. A case = one module; '
        'non-trivial = >= 2 function scopes compared or >= 1 dynamic event judged; distinct = shape of the module')
ASSUMPTIONS = ['exempt as stated in the property: comprehension targets and except-clause names',
               'the analysis propagates reads of nested functions upward, so its free-variable set may additionally hold names that '
               'CPython resolves as global/builtin in the function or a descendant']
MIN_JUDGED = {'quick': 3000, 'thorough': 40000}
SLICE_TIMEOUT = {'quick': 1200, 'thorough': 5400}


def plan(tier, seed):
  n = 400 if tier == 'quick' else 6000
  specs = [{'kind': 'static', 'seed': seed, 'slice': k, 'n': n, 'hashseed': (seed * 16 + k) % 4294967295} for k in range(8)]
  specs += [{'kind': 'dynamic', 'seed': seed, 'slice': k, 'n': n // 2, 'hashseed': (seed * 16 + k) % 4294967295} for k in range(8)]
  return specs


def simple(qns):
  return {str(q) for q in qns if not q.is_composite()}


def tables_by_pos(src):
  out = {}

  def walk(t):
    for ch in t.get_children():
      if ch.get_type() == 'function':
        out.setdefault((ch.get_name(), ch.get_lineno()), []).append(ch)
      walk(ch)

  walk(symtable.symtable(src, '<c08>', 'exec'))
  return out


def descendants(tab):
  for ch in tab.get_children():
    yield ch
    for x in descendants(ch):
      yield x


def global_refs(tab):
  """Names CPython resolves as global/builtin in tab or any scope nested in it."""
  out = set()
  for t in [tab] + list(descendants(tab)):
    for s in t.get_symbols():
      if s.is_global():
        out.add(s.get_name())
  return out


def judge_static(cid, seed, src=None):
  from malt.pyct import anno, qual_names, transformer
  from malt.pyct.static_analysis import activity
  from malt.pyct.static_analysis.annos import NodeAnno
  out = {'case': cid, 'verdict': 'ok', 'counters': {}}
  if src is None:
    src = scopes.Soup(seed).module()
  try:
    compile(src, '<c08>', 'exec')
    tabs = tables_by_pos(src)
  except SyntaxError:
    out['verdict'] = 'skip'
    out['counters']['soup_not_valid_python'] = 1
    return out
  tree = ast.parse(src)
  top = [n for n in tree.body if isinstance(n, ast.FunctionDef) and n.name.startswith('fn')][0]
  info = transformer.EntityInfo(name='subject', source_code=src, source_file=None, future_features=(), namespace={})
  ctx = transformer.Context(info, None, None)
  try:
    node = qual_names.resolve(top)
    node = activity.resolve(node, ctx, None)
  except Exception as e:  # pylint:disable=broad-except
    out['verdict'] = 'violation'
    out['detail'] = 'activity analysis failed: %s: %s\n%s' % (type(e).__name__, str(e)[:200], src)
    out['witness'] = {'kind': 'static', 'src': src}
    return out
  handler_names = {n.name for n in ast.walk(tree) if isinstance(n, ast.ExceptHandler) and n.name}
  # comprehension targets (CPython 3.12 inlines comprehensions and lists their targets with the enclosing function)
  for c_ in ast.walk(tree):
    if isinstance(c_, ast.comprehension):
      handler_names |= {n.id for n in ast.walk(c_.target) if isinstance(n, ast.Name)}
  probs = []
  nf = 0
  lam_seen = {}
  fnodes = [n for n in ast.walk(node) if isinstance(n, (ast.FunctionDef, ast.Lambda))]
  fnodes.sort(key=lambda n: (n.lineno, n.col_offset))
  for fn in fnodes:
    nm = fn.name if isinstance(fn, ast.FunctionDef) else 'lambda'
    cands = tabs.get((nm, fn.lineno), [])
    idx = lam_seen.get((nm, fn.lineno), 0)
    lam_seen[(nm, fn.lineno)] = idx + 1
    if idx >= len(cands):
      continue
    tab = cands[idx]
    if nm == 'lambda' and len(cands) > 1:
      out['counters']['lambdas_same_line_matched_by_order'] = out['counters'].get('lambdas_same_line_matched_by_order', 0) + 1
    try:
      S = anno.getanno(fn, NodeAnno.ARGS_AND_BODY_SCOPE)
      A = anno.getanno(fn.args, anno.Static.SCOPE)
    except KeyError as e:
      probs.append('%s at line %d has no %s annotation' % (nm, fn.lineno, e))
      continue
    nf += 1
    params_py = set(tab.get_parameters())
    params_an = {str(q) for q in A.params.keys()}
    if params_an != params_py:
      probs.append('%s (line %d): parameters %s, CPython %s' % (nm, fn.lineno, sorted(params_an), sorted(params_py)))
    locals_py = set(tab.get_locals())
    nonlocals_py = set(tab.get_nonlocals())
    declared_globals_py = {s.get_name() for s in tab.get_symbols() if s.is_declared_global()}
    bound_an = simple(S.bound)
    globals_an = simple(S.globals)
    nonlocals_an = simple(S.nonlocals)
    exempt = handler_names
    want = (locals_py | nonlocals_py) - exempt
    got = (bound_an - globals_an) - exempt
    if got != want:
      probs.append('%s (line %d): bound names %s, CPython locals+nonlocals %s (analysis only: %s; CPython only: %s)' % (
          nm, fn.lineno, sorted(got), sorted(want), sorted(got - want), sorted(want - got)))
    if globals_an != declared_globals_py:
      probs.append('%s (line %d): declared globals %s, CPython %s' % (nm, fn.lineno, sorted(globals_an), sorted(declared_globals_py)))
    if nonlocals_an != nonlocals_py:
      probs.append('%s (line %d): nonlocals %s, CPython %s' % (nm, fn.lineno, sorted(nonlocals_an), sorted(nonlocals_py)))
    free_an = simple(S.read) - simple(S.bound)
    frees_py = set(tab.get_frees()) - nonlocals_py
    allowed_extra = global_refs(tab)
    if not frees_py <= free_an:
      probs.append('%s (line %d): closure variables %s missing from read - bound' % (nm, fn.lineno, sorted(frees_py - free_an)))
    extra = free_an - frees_py - allowed_extra - exempt
    if extra:
      probs.append('%s (line %d): %s reported free, CPython binds them locally or does not know them' % (nm, fn.lineno, sorted(extra)))
  out['counters']['function_scopes_compared'] = nf
  if probs:
    out['verdict'] = 'violation'
    out['detail'] = '; '.join(probs[:3]) + '\n' + '\n'.join('%3d %s' % (i + 1, l) for i, l in enumerate(src.split('\n')))
    out['witness'] = {'kind': 'static', 'src': src}
    return out
  out['nontrivial'] = nf >= 2
  out['sig'] = 'S|%d|%s' % (nf, hash(tuple(sorted(type(n).__name__ for n in ast.walk(top)))) % 100000)
  out['src'] = src
  return out


def scope_owner(sub, k):
  """The node whose Scope annotation accounts for the name occurrence k."""
  from malt.pyct import anno
  child = k
  cur = sub.par.get(k)
  n0 = sub.nodes[k]
  if anno.hasanno(n0, anno.Static.SCOPE) and not isinstance(n0, (ast.arguments, ast.FunctionDef, ast.Lambda)):
    return n0
  while cur is not None:
    n = sub.nodes[cur]
    c = sub.nodes[child]
    if isinstance(n, ast.For) and c is n.target:
      return n.iter                      # loop targets are accounted to the iterate
    if isinstance(n, ast.Lambda):
      return None                        # lambda bodies are propagated through the lambda's own scope
    if isinstance(n, ast.FunctionDef):
      if c in n.decorator_list or c is n.args:
        # decorators and defaults belong to the def statement; parameters do not
        if c is n.args and not any(c2 is sub.nodes[k] or _contains(c2, sub.nodes[k]) for c2 in n.args.defaults + [d for d in n.args.kw_defaults if d is not None]):
          return None
        return n
      return None
    if anno.hasanno(n, anno.Static.SCOPE) and not isinstance(n, ast.arguments):
      return n
    child = cur
    cur = sub.par.get(cur)
  return None


def _contains(root, node):
  return any(x is node for x in ast.walk(root))


def judge_dynamic(cid, src, inputs, fnames):
  from malt.pyct import anno
  out = {'case': cid, 'verdict': 'ok', 'counters': {}}
  C = out['counters']
  try:
    sub = subj.Subject(src)
    sub.analyse(fnames, upto='activity')
  except Exception as e:  # pylint:disable=broad-except
    out['verdict'] = 'skip'
    C['skipped_analysis_error'] = 1
    out['detail'] = '%s: %s' % (type(e).__name__, str(e)[:200])
    return out
  analysed = {sub.top_function(n)._vf_k for n in fnames if sub.top_function(n) is not None}

  def in_analysed(k):
    while k is not None:
      if k in analysed:
        return True
      k = sub.par.get(k)
    return False

  probs = []
  for a in inputs:
    res, events = sub.run('f', a)
    if res['kind'] == 'timeout':
      continue
    for ev in events:
      if ev[0] == 'R':
        name, rid = ev[2], ev[3]
        if not in_analysed(rid):
          continue
        owner = scope_owner(sub, rid)
        if owner is None:
          C['reads_in_lambda_not_judged'] = C.get('reads_in_lambda_not_judged', 0) + 1
          continue
        sc = anno.getanno(owner, anno.Static.SCOPE)
        C['reads_judged'] = C.get('reads_judged', 0) + 1
        if name not in simple(sc.read):
          probs.append('input %s: `%s` at line %d actually read %s, which is not in its read set %s' % (
              a, ast.unparse(owner).split('\n')[0][:60], getattr(owner, 'lineno', 0), name, sorted(simple(sc.read))))
          break
      elif ev[0] == 'W':
        name, did = ev[2], ev[3]
        w = sub.nodes[did]
        if not in_analysed(did) or isinstance(w, (ast.arg, ast.ExceptHandler)):
          continue
        owner = scope_owner(sub, did)
        if owner is None:
          continue
        sc = anno.getanno(owner, anno.Static.SCOPE)
        C['bindings_judged'] = C.get('bindings_judged', 0) + 1
        if name not in simple(sc.modified):
          probs.append('input %s: `%s` at line %d actually rebound %s, which is not in its modified set %s' % (
              a, ast.unparse(owner).split('\n')[0][:60], getattr(owner, 'lineno', 0), name, sorted(simple(sc.modified))))
          break
      elif ev[0] == 'D' and len(ev) > 4:
        name, k = ev[2], ev[4]
        if not in_analysed(k):
          continue
        owner = scope_owner(sub, k)
        if owner is None:
          continue
        sc = anno.getanno(owner, anno.Static.SCOPE)
        C['deletes_judged'] = C.get('deletes_judged', 0) + 1
        if name not in simple(sc.deleted):
          probs.append('input %s: `%s` deleted %s, which is not in its deleted set' % (a, ast.unparse(owner)[:40], name))
          break
    if probs:
      break
  if probs:
    out['verdict'] = 'violation'
    out['detail'] = probs[0] + '\n--- program ---\n' + stream.body_of(src)
    out['witness'] = {'kind': 'dynamic', 'src': src, 'inputs': inputs, 'fnames': fnames}
    return out
  out['nontrivial'] = C.get('reads_judged', 0) > 0
  out['sig'] = 'D|' + grammar.shape_signature(src)
  return out


def run_slice(spec):
  from vf.props import c06
  if spec['kind'] == 'static':
    for i in range(spec['n']):
      cid = 'C08s/%d/%d/%d' % (spec['seed'], spec['slice'], i)
      out = judge_static(cid, cid)
      src = out.pop('src', None)
      if out['verdict'] == 'ok' and i % 20 == 3:
        out['sample'] = {'case': cid, 'function_scopes_compared': out['counters'].get('function_scopes_compared'), 'module': src[:1500]}
      yield out
  else:
    for i in range(spec['n']):
      cid = 'C08d/%d/%d/%d' % (spec['seed'], spec['slice'], i)
      src, meta = grammar.gen_module(cid, grammar.profile('c08'))
      inputs = grammar.gen_inputs(cid, 4)
      yield judge_dynamic(cid, src, inputs, c06.fnames_of(src))


def replay(w):
  if w['kind'] == 'static':
    out = judge_static('replay', None, w['src'])
    out.pop('src', None)
    return out
  return judge_dynamic('replay', w['src'], w['inputs'], w['fnames'])


def conclusive(cov, tier):
  if cov.get('function_scopes_compared', 0) < 500 or cov.get('reads_judged', 0) < 5000:
    return 'too little compared: %s scopes, %s reads' % (cov.get('function_scopes_compared'), cov.get('reads_judged'))
  return None
