"""C15 — source recovery returns exactly the code of the function being converted.

Oracle: ast.parse of the module file the interpreter compiled; the runtime
object selects its own node by unique def name / unique lambda `_id` default.
"""
import ast
import random

from vf import diff
from vf.gen import layout

ID = 'C15'
LEVEL = 'exploration'
RULE = ('generated module files with hostile layout (nesting in module/class/function/if/for/with/try, spaces or tabs, '
        'comments incl. ones ending in a backslash, backslash continuations, triple-quoted/raw/byte/f-strings with '
        'under-indented or backslash-terminated lines, decorators, multi-line signatures, several lambdas per line, nested and '
        'multi-line lambdas, identical signatures); every function object in the module is one case: '
        'ast.dump(parse_entity(fn)) vs ast.dump(own node in ast.parse(file)); non-trivial = function whose source uses at '
        'least one hostile feature; distinct = (entity kind, nesting depth, set of layout features in its source)')
ASSUMPTIONS = ['ast.parse of the module file is what the interpreter compiled (file is not modified after import)',
               'an UnsupportedLanguageElementError is an accepted answer for lambdas only']
MIN_JUDGED = {'quick': 800, 'thorough': 8000}
SLICE_TIMEOUT = {'quick': 1200, 'thorough': 5400}


def plan(tier, seed):
  n = 25 if tier == 'quick' else 300
  return [{'seed': seed, 'slice': k, 'n': n, 'hashseed': (seed * 16 + k) % 4294967295} for k in range(16)]


def _features_of(text):
  fs = set()
  if '\\\n' in text:
    fs.add('backslash-newline')
  if '#' in text:
    fs.add('comment')
  if "'''" in text or '"""' in text:
    fs.add('triple')
  if '\t' in text:
    fs.add('tabs')
  if text.lstrip().startswith('@'):
    fs.add('decorator')
  if 'lambda' in text:
    fs.add('lambda')
  if ';' in text:
    fs.add('semicolon')
  return fs


def judge_module(cid, seed, tabs, features=None):
  from malt.pyct import parser
  from malt.pyct import errors
  src = layout.Layout(seed, tabs=tabs, features=features).module()
  try:
    compile(src, 'layout', 'exec')
  except SyntaxError as e:
    yield {'case': cid, 'verdict': 'inconclusive', 'detail': 'layout generator produced invalid python: %s' % e}
    return
  m = diff.load_instance(src, 'c15')
  try:
    tree = ast.parse(src)
    defs, lams = {}, {}
    depth = {}

    def walk(n, d):
      for ch in ast.iter_child_nodes(n):
        if isinstance(ch, ast.FunctionDef):
          defs.setdefault(ch.name, []).append(ch)
          depth[id(ch)] = d
          walk(ch, d + 1)
        elif isinstance(ch, ast.Lambda):
          key = None
          for a, dv in zip(ch.args.kwonlyargs, ch.args.kw_defaults):
            if a.arg == '_id' and isinstance(dv, ast.Constant):
              key = dv.value
          dfl = ch.args.defaults
          if key is None and dfl and isinstance(dfl[-1], ast.Constant):
            key = dfl[-1].value
          if key is not None:
            lams[key] = ch
            depth[id(ch)] = d
          walk(ch, d + 1)
        else:
          walk(ch, d + (1 if isinstance(ch, (ast.ClassDef, ast.If, ast.For, ast.With, ast.Try)) else 0))
    walk(tree, 0)
    for k, fn in enumerate(m.REG):
      if not callable(fn) or not hasattr(fn, '__code__'):
        continue
      is_lam = fn.__name__ == '<lambda>'
      lam_id = None
      if is_lam:
        lam_id = (fn.__kwdefaults__ or {}).get('_id')
        if lam_id is None and fn.__defaults__:
          lam_id = fn.__defaults__[-1]
      if is_lam:
        node = lams.get(lam_id)
      else:
        # by the code object's own name and first line: names may be reused and functools.wraps renames
        cands = defs.get(fn.__code__.co_name, [])
        first = fn.__code__.co_firstlineno
        match = [c for c in cands if first in ([c.lineno] + [dd.lineno for dd in c.decorator_list])]
        node = match[0] if len(match) == 1 else (cands[0] if len(cands) == 1 else None)
      case = '%s/%s' % (cid, ('lam%s' % lam_id) if is_lam else '%s@%d' % (fn.__code__.co_name, fn.__code__.co_firstlineno))
      if node is None:
        yield {'case': case, 'verdict': 'inconclusive', 'detail': 'oracle node not found'}
        continue
      want = ast.dump(node)
      seg = ast.get_source_segment(src, node, padded=True) or ''
      if not is_lam and node.decorator_list:
        first = min(d.lineno for d in node.decorator_list)
        seg = '\n'.join(src.split('\n')[first - 1:node.end_lineno])
      feats = _features_of(seg)
      out = {'case': case, 'verdict': 'ok', 'counters': {'lambdas' if is_lam else 'defs': 1},
             'nontrivial': bool(feats), 'sig': '%s|d%d|%s' % ('lam' if is_lam else 'def', depth.get(id(node), 0), '+'.join(sorted(feats)))}
      try:
        got_node, got_src = parser.parse_entity(fn, ())
      except errors.UnsupportedLanguageElementError as e:
        if is_lam:
          out['counters']['lambda_rejected_explicitly'] = 1
          yield out
          continue
        out['verdict'] = 'violation'
        out['detail'] = 'parse_entity rejected a function definition: %s\n--- source of %s ---\n%s' % (str(e)[:200], fn.__name__, seg)
        out['witness'] = {'seed': seed, 'tabs': tabs, 'features': features, 'name': case}
        yield out
        continue
      except Exception as e:  # pylint:disable=broad-except
        out['verdict'] = 'violation'
        out['detail'] = 'parse_entity failed: %s: %s\n--- source of %s ---\n%s' % (type(e).__name__, str(e)[:300], fn.__name__, seg)
        out['witness'] = {'seed': seed, 'tabs': tabs, 'features': features, 'name': case}
        yield out
        continue
      got = ast.dump(got_node)
      if got != want:
        n = 0
        while n < min(len(got), len(want)) and got[n] == want[n]:
          n += 1
        out['verdict'] = 'violation'
        out['detail'] = ('recovered tree differs from the compiled definition%s: recovered ...%s | compiled ...%s\n--- source ---\n%s' % (
            ' (a different lambda was substituted)' if is_lam and isinstance(got_node, ast.Lambda) and ast.dump(got_node.args) != ast.dump(node.args) else '',
            got[max(0, n - 40):n + 120], want[max(0, n - 40):n + 120], seg))
        out['witness'] = {'seed': seed, 'tabs': tabs, 'features': features, 'name': case}
      else:
        # recovery is repeatable: what a consumer does to the tree it was given (converters rewrite it in place)
        # must not show up in a later recovery of the same entity
        try:
          got_node.args.defaults = []
          got_node.args.kw_defaults = [None for _ in got_node.args.kw_defaults]
          got_node.body = ast.Constant(value=0) if isinstance(got_node, ast.Lambda) else [ast.Pass()]
          again, _ = parser.parse_entity(fn, ())
          out['counters']['second_recoveries'] = 1
          if ast.dump(again) != want:
            out['verdict'] = 'violation'
            out['detail'] = ('a second recovery of the same entity, after the first tree was rewritten by its consumer, no longer '
                             'matches the compiled definition\n--- source ---\n%s' % seg)
            out['witness'] = {'seed': seed, 'tabs': tabs, 'features': features, 'name': case}
        except Exception as e:  # pylint:disable=broad-except
          out['verdict'] = 'violation'
          out['detail'] = 'second recovery failed: %s: %s\n--- source ---\n%s' % (type(e).__name__, str(e)[:200], seg)
          out['witness'] = {'seed': seed, 'tabs': tabs, 'features': features, 'name': case}
        if out['verdict'] == 'ok' and k % 40 == 7:
          out['sample'] = {'case': case, 'tabs': tabs, 'source': seg[:600]}
      yield out
  finally:
    diff.unload(m)


def run_slice(spec):
  for i in range(spec['n']):
    cid = 'C15/%d/%d/%d' % (spec['seed'], spec['slice'], i)
    rng = random.Random(cid)
    tabs = rng.random() < 0.3
    for out in judge_module(cid, cid, tabs):
      yield out


def replay(w):
  res = [r for r in judge_module('replay', w['seed'], w['tabs'], w.get('features'))]
  bad = [r for r in res if r['verdict'] == 'violation']
  return bad[:1] or res[:1]
