"""C05 — the control-flow graph contains every control path that can execute.

Oracle: the interpreter's own execution order of an instrumented twin (probe
events at every CFG node), plus structural checks of each graph against an
independently (lexically) derived ownership relation.
"""
import ast
import random

from vf import stream
from vf.gen import grammar
from vf.gen import skeleton
from vf.instr import subject as subj

ID = 'C05'
LEVEL = 'exploration'
RULE = ('random programs of profile c05 (if/while/for incl. else clauses, break/continue/return, try/except/else/finally, with, '
        'explicit raise, nested defs, lambdas) and enumerated skeletons with every decision vector; cfg.build runs on the same '
        'tree whose twin is executed; every function invocation yields one trace of CFG-node events that must be a path from the '
        'entry to an exit/raise node. non-trivial = >= 1 trace with >= 3 nodes checked; distinct = program shape signature')
ASSUMPTIONS = ['exempt (documented): finally bodies that run while an exception propagates (skipped from the raise to the next '
               'successor of the raise node), implicit exceptions out of calls (trace may end at the call statement)',
               'lambda-definition nodes carry no probe and are traversed as unobservable nodes']
MIN_JUDGED = {'quick': 300, 'thorough': 3000}
SLICE_TIMEOUT = {'quick': 1500, 'thorough': 7200}


def plan(tier, seed):
  n = 40 if tier == 'quick' else 500
  specs = [{'kind': 'random', 'seed': seed, 'slice': k, 'n': n, 'hashseed': (seed * 16 + k) % 4294967295}
           for k in range(12)]
  specs += [{'kind': 'skeleton', 'seed': seed, 'slice': k, 'parts': 8, 'tier': tier,
             'hashseed': (seed * 16 + k + 1) % 4294967295} for k in range(8)]
  specs += [{'kind': 'trymatrix', 'seed': seed, 'slice': k, 'parts': 8, 'tier': tier,
             'hashseed': (seed * 16 + k + 2) % 4294967295} for k in range(8)]
  return specs


def always_jumps(s):
  if isinstance(s, (ast.Return, ast.Raise, ast.Break, ast.Continue)):
    return True
  if isinstance(s, ast.If):
    return bool(s.orelse) and block_jumps(s.body) and block_jumps(s.orelse)
  if isinstance(s, ast.With):
    return block_jumps(s.body)
  if isinstance(s, ast.Try):
    if s.finalbody and block_jumps(s.finalbody):
      return True
    body = block_jumps(s.body) or (bool(s.orelse) and block_jumps(s.orelse))
    if not has_raise(s.body):
      return body   # the model reaches handlers only from explicit raise statements
    return body and all(block_jumps(h.body) for h in s.handlers)
  if isinstance(s, (ast.While, ast.For)):
    has_break = live_break(s.body)
    # `while True:` without a break never falls through
    if isinstance(s, ast.While) and isinstance(s.test, ast.Constant) and s.test.value is True:
      return not has_break
    # a loop-else that always jumps: falling out of the loop needs a break
    if s.orelse and block_jumps(s.orelse) and not has_break:
      return True
  return False


def has_raise(stmts):
  """Is there an explicit raise in live code lexically inside (not in a nested function)?"""
  for st in stmts:
    if isinstance(st, ast.Raise):
      return True
    if isinstance(st, (ast.FunctionDef, ast.ClassDef)):
      continue
    for field in ('body', 'orelse', 'finalbody'):
      sub = getattr(st, field, None)
      if isinstance(sub, list) and has_raise(sub):
        return True
    if isinstance(st, ast.Try) and has_raise(st.body):
      # handlers are reachable only from an explicit raise in the body
      for h in st.handlers:
        if has_raise(h.body):
          return True
    if always_jumps(st):
      break
  return False


def live_break(stmts):
  """Is there a reachable break that belongs to the loop owning `stmts`?"""
  for st in stmts:
    if isinstance(st, ast.Break):
      return True
    if isinstance(st, (ast.FunctionDef, ast.ClassDef)):
      continue
    if isinstance(st, (ast.For, ast.While)):
      if live_break(st.orelse):      # a break in a nested loop's else clause is ours
        return True
    elif isinstance(st, ast.Try):
      if st.finalbody and block_jumps(st.finalbody):
        if live_break(st.finalbody):
          return True
      else:
        if live_break(st.body) or live_break(st.orelse) or live_break(st.finalbody):
          return True
        if has_raise(st.body) and any(live_break(h.body) for h in st.handlers):
          return True
    else:
      for field in ('body', 'orelse'):
        sub = getattr(st, field, None)
        if isinstance(sub, list) and live_break(sub):
          return True
    if always_jumps(st):
      break
  return False


def _walk_same_loop(loop):
  stack = list(loop.body)
  while stack:
    n = stack.pop()
    if isinstance(n, ast.Try) and n.finalbody and block_jumps(n.finalbody):
      # jumps out of this try are overridden by the jump in its finally block
      stack.extend(n.finalbody)
      continue
    yield n
    if isinstance(n, (ast.For, ast.While, ast.FunctionDef, ast.Lambda, ast.ClassDef)):
      if isinstance(n, (ast.For, ast.While)):
        stack.extend(n.orelse)
      continue
    stack.extend(ast.iter_child_nodes(n))


def block_jumps(stmts):
  return any(always_jumps(s) for s in stmts)


def dead_statement_ids(fn):
  """_vf_k of statements (and their sub-nodes) that follow an always-jumping statement in their block."""
  dead = set()

  def mark(n):
    for x in ast.walk(n):
      dead.add(x._vf_k)

  def visit_block(stmts):
    jumped = False
    for s in stmts:
      if jumped:
        mark(s)
        continue
      for field in ('body', 'orelse', 'finalbody'):
        sub = getattr(s, field, None)
        if isinstance(sub, list) and not isinstance(s, (ast.FunctionDef, ast.ClassDef)):
          if field == 'orelse' and isinstance(s, ast.Try) and block_jumps(s.body):
            for x in sub:
              mark(x)    # the else clause of a try whose body always jumps
          else:
            visit_block(sub)
      for h in getattr(s, 'handlers', []) or []:
        if not has_raise(s.body):
          mark(h)     # no explicit raise can reach this handler: dead in the model
        else:
          visit_block(h.body)
      if always_jumps(s):
        jumped = True

  visit_block(fn.body)
  return dead


def inside(k, owner_k, par):
  while k is not None:
    if k == owner_k:
      return True
    k = par.get(k)
  return False


def structural(sub, fn, graph):
  probs = []
  nodes = list(graph.index.values())
  nodeset = set(nodes)
  for n in nodes:
    for b in n.next:
      if n not in b.prev:
        probs.append('edge %r -> %r has no mirror in prev' % (n, b))
      if b not in nodeset:
        probs.append('successor %r of %r is not in the index' % (b, n))
    for a in n.prev:
      if n not in a.next:
        probs.append('prev link %r <- %r has no mirror in next' % (n, a))
  if graph.entry.ast_node is not fn.args:
    probs.append('entry node is %r, not the arguments node' % graph.entry)
  if len(list(graph.entry.prev)):
    probs.append('entry node has predecessors')
  # reachability
  seen = set()
  stack = [graph.entry]
  while stack:
    n = stack.pop()
    if n in seen:
      continue
    seen.add(n)
    stack.extend(n.next)
  dead = dead_statement_ids(fn)
  for n in nodes:
    if n not in seen:
      k = getattr(n.ast_node, '_vf_k', None)
      if k not in dead:
        probs.append('node %r is neither reachable from the entry nor dead code' % n)
  for n in graph.exit:
    if n not in nodeset:
      probs.append('exit node %r not in index' % n)
  # statement-level edge sets vs the node graph with lexical ownership
  for stmt, nxt in graph.stmt_next.items():
    sk = stmt._vf_k
    exp_next, exp_prev = set(), set()
    for a in nodes:
      ak = getattr(a.ast_node, '_vf_k', None)
      a_in = inside(ak, sk, sub.par)
      for b in a.next:
        bk = getattr(b.ast_node, '_vf_k', None)
        b_in = inside(bk, sk, sub.par)
        if a_in and not b_in:
          exp_next.add(b)
        if (not a_in) and b_in:
          exp_prev.add(a)
    if set(nxt) != exp_next:
      probs.append('stmt_next of `%s` (line %s) is %r, node graph gives %r' % (
          type(stmt).__name__, getattr(stmt, 'lineno', '?'), sorted(map(repr, nxt)), sorted(map(repr, exp_next))))
    prv = graph.stmt_prev.get(stmt, ())
    if set(prv) != exp_prev:
      probs.append('stmt_prev of `%s` (line %s) is %r, node graph gives %r' % (
          type(stmt).__name__, getattr(stmt, 'lineno', '?'), sorted(map(repr, prv)), sorted(map(repr, exp_prev))))
  return probs


def reach_via_unobservable(a, target):
  """Is `target` reachable from a.next through lambda-definition nodes only?"""
  seen = set()
  stack = list(a.next)
  while stack:
    n = stack.pop()
    if n is target:
      return True
    if n in seen:
      continue
    seen.add(n)
    if isinstance(n.ast_node, ast.Lambda):
      stack.extend(n.next)
  return False


def in_handler(sub, k):
  while k is not None:
    if isinstance(sub.nodes[k], ast.ExceptHandler):
      return True
    if isinstance(sub.nodes[k], (ast.FunctionDef, ast.Lambda)):
      return False
    k = sub.par.get(k)
  return False


def in_propagation_finally(sub, k, raise_k):
  """Is node k inside the finally block of a try statement that lexically encloses the raise?"""
  child = k
  cur = sub.par.get(k)
  while cur is not None:
    n = sub.nodes[cur]
    if isinstance(n, (ast.FunctionDef, ast.Lambda)):
      return False
    if isinstance(n, ast.Try) and any(sub.nodes[child] is st for st in n.finalbody):
      if inside(raise_k, cur, sub.par) and not any(inside(raise_k, st._vf_k, sub.par) for st in n.finalbody):
        return True
    child = cur
    cur = sub.par.get(cur)
  return False


def jump_leaves_propagation_finally(sub, k, raise_k):
  """Does the return/break/continue at node k leave the finally block it runs in during propagation (and so discard
  the exception)? A break/continue whose loop is itself inside that finally block does not."""
  node = sub.nodes[k]
  if isinstance(node, ast.Return):
    return True
  # innermost loop of the jump
  loop = None
  cur = sub.par.get(k)
  while cur is not None:
    n = sub.nodes[cur]
    if isinstance(n, (ast.FunctionDef, ast.Lambda)):
      break
    if isinstance(n, (ast.For, ast.While)):
      loop = cur
      break
    cur = sub.par.get(cur)
  if loop is None:
    return True
  # is that loop inside a finally block that is being run for the propagating exception?
  return not in_propagation_finally(sub, loop, raise_k)


def check_trace(sub, fn, graph, trace, how):
  """trace: list of node ids. Returns (problem or None, edges exercised)."""
  by_k = {getattr(n.ast_node, '_vf_k', None): n for n in graph.index.values()}
  edges = set()
  if not trace:
    return None, edges
  first = by_k.get(trace[0])
  if first is not graph.entry:
    return 'first executed node %r is not the entry node' % (first,), edges
  cur = first
  i = 1
  while i < len(trace):
    nxt = by_k.get(trace[i])
    if nxt is None:
      return 'executed statement (node id %d: %s) has no CFG node' % (
          trace[i], ast.unparse(sub.nodes[trace[i]]).split('\n')[0][:60]), edges
    if isinstance(cur.ast_node, ast.Raise):
      # Exempt (documented): finally bodies that run while the exception propagates.
      # Resume at the entry of the handler that catches it (a successor of the raise
      # node inside an except clause); if there is none the exception left the function.
      j = i
      found = None
      swallowed = False
      while j < len(trace):
        if in_propagation_finally(sub, trace[j], cur.ast_node._vf_k):
          if isinstance(sub.nodes[trace[j]], (ast.Return, ast.Break, ast.Continue)) and \
              jump_leaves_propagation_finally(sub, trace[j], cur.ast_node._vf_k):
            # a jump out of the finally block discards the exception: normal flow resumes at that jump
            swallowed = True
            found = j
            break
          j += 1
          continue
        found = j
        break
      if found is None:
        if how == 'exc':
          return None, edges     # the exception left the function
        return 'explicit raise `%s` was followed by a normal return without any handler statement' % (cur,), edges
      cand = by_k.get(trace[found])
      if swallowed and cand is not None:
        cur = cand
        i = found + 1
        continue
      if cand is None or not reach_via_unobservable(cur, cand):
        return 'exception raised by `%s` was caught and execution continued at `%s`, but the graph has no edge from the raise to it' % (
            cur, cand if cand is not None else ast.unparse(sub.nodes[trace[found]])[:50]), edges
      edges.add((id(cur), id(by_k[trace[found]])))
      cur = by_k[trace[found]]
      i = found + 1
      continue
    if reach_via_unobservable(cur, nxt):
      edges.add((id(cur), id(nxt)))
      cur = nxt
      i += 1
      continue
    return 'executed `%s` then `%s` but the graph has no such edge' % (cur, nxt), edges
  # last node
  if how == 'ret':
    if cur not in graph.exit:
      return 'function returned after `%s`, which is not an exit node' % (cur,), edges
  return None, edges


def judge(cid, src, inputs, fnames):
  out = {'case': cid, 'verdict': 'ok', 'counters': {}}
  try:
    sub = subj.Subject(src)
  except SyntaxError as e:
    out['verdict'] = 'inconclusive'
    out['detail'] = 'subject does not parse: %s' % e
    return out
  try:
    graphs = sub.analyse(fnames, upto='cfg')
  except Exception as e:  # pylint:disable=broad-except
    out['verdict'] = 'violation'
    out['detail'] = 'cfg.build failed: %s: %s\n--- program ---\n%s' % (type(e).__name__, str(e)[:200], stream.body_of(src))
    out['witness'] = {'src': src, 'inputs': inputs, 'fnames': fnames}
    return out
  probs = []
  fn_graph = {}
  for node, g in graphs.items():
    if isinstance(node, ast.FunctionDef):
      fn_graph[node._vf_k] = (node, g)
      probs.extend(structural(sub, node, g)[:2])
      out['counters']['graphs_checked'] = out['counters'].get('graphs_checked', 0) + 1
      out['counters']['edges_in_graphs'] = out['counters'].get('edges_in_graphs', 0) + sum(len(n.next) for n in g.index.values())
  exercised = set()
  longest = 0
  if not probs:
    for a in inputs:
      ref = sub.run_plain('f', a)
      res, events = sub.run('f', a)
      if ref['kind'] == 'timeout' or res['kind'] == 'timeout':
        out['counters']['watchdog_inconclusive'] = out['counters'].get('watchdog_inconclusive', 0) + 1
        continue
      if (ref['kind'], ref.get('value'), ref['log']) != (res['kind'], res.get('value'), res['log']):
        out['verdict'] = 'inconclusive'
        out['detail'] = 'twin diverges from the original (harness): %r vs %r\n%s' % (
            (ref['kind'], ref.get('value')), (res['kind'], res.get('value')), stream.body_of(src))
        return out
      for inv, rec in sub.invocations(events).items():
        if rec['fid'] not in fn_graph or rec['how'] is None:
          continue
        node, g = fn_graph[rec['fid']]
        p, edges = check_trace(sub, node, g, rec['nodes'], rec['how'])
        exercised |= edges
        longest = max(longest, len(rec['nodes']))
        out['counters']['traces_checked'] = out['counters'].get('traces_checked', 0) + 1
        out['counters']['probe_events'] = out['counters'].get('probe_events', 0) + len(rec['nodes'])
        if p:
          probs.append('input %s, function %s: %s' % (a, node.name, p))
          break
      if probs:
        break
  out['counters']['edges_exercised'] = len(exercised)
  out['longest_trace'] = longest
  if probs:
    out['verdict'] = 'violation'
    out['detail'] = '; '.join(probs[:2]) + '\n--- program ---\n' + stream.body_of(src)
    out['witness'] = {'src': src, 'inputs': inputs, 'fnames': fnames}
    return out
  out['nontrivial'] = out['counters'].get('traces_checked', 0) > 0 and longest >= 3
  out['sig'] = grammar.shape_signature(src)
  return out


def fnames_of(src):
  return [n.name for n in ast.parse(src).body if isinstance(n, ast.FunctionDef) and (
      n.name == 'f' or (n.name.startswith('g') and n.name[1:].isdigit()) or n.name == 'make')]


def run_slice(spec):
  if spec['kind'] == 'random':
    for i in range(spec['n']):
      cid = 'C05/%d/%d/%d' % (spec['seed'], spec['slice'], i)
      src, meta = grammar.gen_module(cid, grammar.profile('c05'))
      inputs = grammar.gen_inputs(cid, 5)
      out = judge(cid, src, inputs, fnames_of(src))
      lt = out.pop('longest_trace', 0)
      if out['verdict'] == 'ok' and i % 10 == 2:
        out['sample'] = {'case': cid, 'inputs': inputs[:2], 'longest_trace': lt,
                         'traces_checked': out['counters'].get('traces_checked'), 'program': stream.body_of(src)[:1500]}
      yield out
  elif spec['kind'] == 'trymatrix':
    from vf.gen import trymatrix
    for cid, src, inputs in trymatrix.cases(spec['seed'], spec['slice'], spec['parts'], spec['tier']):
      out = judge('C05' + cid, src, inputs, ['f'])
      out.pop('longest_trace', None)
      out['counters']['nested_try_programs'] = 1
      if out['verdict'] == 'ok':
        out['sig'] = cid
      yield out
  else:
    for cid, src, inputs in skeleton.cases(spec['seed'], spec['slice'], spec['parts'], spec['tier'],
                                           constructs=skeleton.CONSTRUCTS + ['infinally']):
      out = judge(cid.replace('skel/', 'C05skel/'), src, inputs, ['f'])
      out.pop('longest_trace', None)
      out['counters']['skeletons'] = 1
      yield out


def replay(w):
  out = judge('replay', w['src'], w['inputs'], w['fnames'])
  out.pop('longest_trace', None)
  return out


def conclusive(cov, tier):
  if cov.get('traces_checked', 0) < 1000:
    return 'only %d traces checked' % cov.get('traces_checked', 0)
  return None
