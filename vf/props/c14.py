"""C14 — builtin overloads behave like the builtins on ordinary Python values.

Reference: the builtin itself, called with a fresh copy of the same arguments.
Lazy results are stepped in lock-step while logging iterators count how many
items have been pulled from each argument.
"""
import contextlib
import io
import itertools
import math
import random
import sys

from vf import diff

ID = 'C14'
LEVEL = 'exploration'
RULE = ('enumerated call shapes of abs/all/any/enumerate/filter/float/int/len/map/print/range/sorted/zip (every optional '
        'parameter present/absent, positionally and by documented keyword) x value classes (ints, floats incl. nan/inf/-0.0, '
        'bools, strings, lists, tuples, dicts, sets, iterators, generators, user objects with the relevant dunders, rejected '
        'values) plus random values; and converted functions calling eval/locals/globals/super() at nesting 0-3 inside '
        'functionalised bodies. A case = one call shape with one argument tuple; non-trivial = the builtin accepted the call '
        'shape (returned or rejected the values); distinct = (builtin, shape, value class)')
ASSUMPTIONS = ['call shapes the builtin itself rejects by signature (unknown/positional-only keywords) are not compared',
               'equality of results by canonical repr (NaN-safe); laziness = items pulled from logging iterators']
MIN_JUDGED = {'quick': 500, 'thorough': 3000}
SLICE_TIMEOUT = {'quick': 900, 'thorough': 3600}


class LogIter(object):
  """Iterator that counts how many items were pulled."""

  def __init__(self, seq):
    self.seq = list(seq)
    self.i = 0
    self.pulled = 0

  def __iter__(self):
    return self

  def __next__(self):
    if self.i >= len(self.seq):
      raise StopIteration
    v = self.seq[self.i]
    self.i += 1
    self.pulled += 1
    return v


class Num(object):

  def __init__(self, v):
    self.v = v

  def __abs__(self):
    return ('abs', abs(self.v))

  def __float__(self):
    return float(self.v)

  def __int__(self):
    return int(self.v)

  def __index__(self):
    return int(self.v)

  def __lt__(self, o):
    return self.v < o.v

  def __bool__(self):
    return self.v != 0

  def __repr__(self):
    return 'Num(%r)' % (self.v,)


class Sized(object):

  def __init__(self, n):
    self.n = n

  def __len__(self):
    return self.n

  def __iter__(self):
    return iter(range(self.n))


class BadLen(object):

  def __len__(self):
    return -1


def gen(seq):
  for x in seq:
    yield x


def _key(x):
  return -x if isinstance(x, (int, float)) else 0


def shapes():
  """Yields (builtin name, shape label, value class, factory) where factory()
  returns (args, kwargs, logging_iterators)."""
  I = LogIter
  nan = float('nan')
  vals_num = [('int', 5), ('negint', -7), ('bool', True), ('float', -2.5), ('nan', nan), ('inf', float('inf')),
              ('negzero', -0.0), ('bigint', 10 ** 30), ('num_obj', Num(-3)), ('complex', 3 - 4j),
              ('str_rejected', 'x'), ('none_rejected', None), ('list_rejected', [1])]
  for vc, v in vals_num:
    yield 'abs', 'abs(x)', vc, (lambda v=v: ((v,), {}, []))
  seqs = [('list', lambda: [3, 1, 2]), ('empty', lambda: []), ('tuple', lambda: (0, 1)), ('str', lambda: 'ba'),
          ('dict', lambda: {'b': 1, 'a': 2}), ('set', lambda: {2}), ('range', lambda: range(3)),
          ('iterator', lambda: iter([1, 0])), ('generator', lambda: gen([2, 3])), ('sized_obj', lambda: Sized(2)),
          ('logiter', None), ('int_rejected', lambda: 5), ('none_rejected', lambda: None), ('falsy', lambda: [0, '', None])]
  for vc, mk in seqs:
    def f1(mk=mk):
      if mk is None:
        it = I([1, 0, 2])
        return (it,), {}, [it]
      return (mk(),), {}, []
    for b in ('all', 'any', 'len', 'sorted', 'enumerate'):
      yield b, '%s(x)' % b, vc, f1
    def f_enum_pos(mk=mk):
      a, k, its = f1()
      return a + (2,), {}, its
    def f_enum_kw(mk=mk):
      a, k, its = f1()
      return a, {'start': -1}, its
    def f_enum_kw2(mk=mk):
      a, k, its = f1()
      return (), {'iterable': a[0], 'start': 3}, its
    def f_enum_kw3(mk=mk):
      a, k, its = f1()
      return (), {'iterable': a[0]}, its
    yield 'enumerate', 'enumerate(x, n)', vc, f_enum_pos
    yield 'enumerate', 'enumerate(x, start=n)', vc, f_enum_kw
    yield 'enumerate', 'enumerate(iterable=x, start=n)', vc, f_enum_kw2
    yield 'enumerate', 'enumerate(iterable=x)', vc, f_enum_kw3
    for lbl, kw in (('key', {'key': _key}), ('reverse', {'reverse': True}), ('key+reverse', {'key': _key, 'reverse': True}),
                    ('key=None', {'key': None}), ('reverse=False', {'reverse': False}), ('reverse=0', {'reverse': 0})):
      yield 'sorted', 'sorted(x, %s)' % lbl, vc, (lambda kw=kw, f1=f1: (f1()[0], dict(kw), f1()[2]))
    for lbl, fn in (('None', None), ('pred', lambda x: x != 1), ('bool', bool)):
      def ff(fn=fn, f1=f1):
        a, k, its = f1()
        return (fn,) + a, {}, its
      yield 'filter', 'filter(%s, x)' % lbl, vc, ff
    def fm1(f1=f1):
      a, k, its = f1()
      return (lambda x: (x, 1),) + a, {}, its
    def fm2(f1=f1):
      a, k, its = f1()
      b, _, its2 = f1()
      return (lambda x, y: (x, y),) + a + b, {}, its + its2
    yield 'map', 'map(f, x)', vc, fm1
    yield 'map', 'map(f, x, y)', vc, fm2
    def fz1(f1=f1):
      return f1()
    def fz2(f1=f1):
      a, k, its = f1()
      it = I([9, 8])
      return a + (it,), {}, its + [it]
    def fz3(f1=f1):
      a, k, its = f1()
      it = I([9, 8, 7, 6])
      return a + (it,), {'strict': True}, its + [it]
    def fz4(f1=f1):
      a, k, its = f1()
      return a + ([7, 7, 7],), {'strict': False}, its
    yield 'zip', 'zip(x)', vc, fz1
    yield 'zip', 'zip(x, y)', vc, fz2
    yield 'zip', 'zip(x, y, strict=True)', vc, fz3
    yield 'zip', 'zip(x, y, strict=False)', vc, fz4
  yield 'zip', 'zip()', 'none', (lambda: ((), {}, []))
  yield 'zip', 'zip(strict=True)', 'none', (lambda: ((), {'strict': True}, []))
  yield 'map', 'map(f)', 'rejected', (lambda: ((abs,), {}, []))
  # sorted stability / ties and mixed values
  ties = [('ties', lambda: [(1, 'b'), (1, 'a'), (0, 'c'), (1, 'c')]), ('mixed_num', lambda: [1, True, 1.0, 0, False]),
          ('unorderable_rejected', lambda: [1, 'a']), ('num_objs', lambda: [Num(2), Num(1), Num(2)])]
  for vc, mk in ties:
    for lbl, kw in (('', {}), ('reverse', {'reverse': True}), ('key', {'key': lambda t: t[0] if isinstance(t, tuple) else 0}),
                    ('key+reverse', {'key': lambda t: t[0] if isinstance(t, tuple) else 0, 'reverse': True}),
                    ('reverse=None_rejected', {'reverse': None}), ('key=notcallable_rejected', {'key': 5})):
      yield 'sorted', 'sorted(x, %s)' % lbl, vc, (lambda mk=mk, kw=kw: ((mk(),), dict(kw), []))
  # float / int
  fvals = [('int', 3), ('str', ' 2.5 '), ('str_nan', 'nan'), ('str_bad_rejected', 'x1'), ('bool', True), ('float', 1e300),
           ('num_obj', Num(4)), ('bytes', b'12'), ('none_rejected', None), ('list_rejected', []), ('underscore', '1_0')]
  yield 'float', 'float()', 'none', (lambda: ((), {}, []))
  yield 'int', 'int()', 'none', (lambda: ((), {}, []))
  for vc, v in fvals:
    yield 'float', 'float(x)', vc, (lambda v=v: ((v,), {}, []))
    yield 'int', 'int(x)', vc, (lambda v=v: ((v,), {}, []))
  for vc, v, b in [('hex', 'ff', 16), ('bin', '0b11', 0), ('bad_base_rejected', '12', 1), ('digit_rejected', '9', 8),
                   ('nonstr_rejected', 12, 10), ('bytes', b'11', 2), ('base_obj', '11', Num(3))]:
    yield 'int', 'int(x, base)', vc, (lambda v=v, b=b: ((v, b), {}, []))
    yield 'int', 'int(x, base=b)', vc, (lambda v=v, b=b: ((v,), {'base': b}, []))
  yield 'int', 'int(float)', 'float_trunc', (lambda: ((-2.9,), {}, []))
  yield 'int', 'int(inf)', 'inf_rejected', (lambda: ((float('inf'),), {}, []))
  yield 'len', 'len(x)', 'badlen_rejected', (lambda: ((BadLen(),), {}, []))
  # range
  for vc, a in [('stop', (4,)), ('start_stop', (1, 4)), ('step', (5, 0, -2)), ('zero_step_rejected', (0, 3, 0)),
                ('float_rejected', (1.5,)), ('index_obj', (Num(3),)), ('bool', (True, 3)), ('big', (10 ** 20, 10 ** 20 + 2)),
                ('empty', (3, 1)), ('neg', (-3,))]:
    yield 'range', 'range%s' % (len(a),), vc, (lambda a=a: (a, {}, []))
  # print
  for vc, a, kw in [('plain', (1, 'a', None), {}), ('sep', (1, 2), {'sep': '-'}), ('end', ('x',), {'end': '!'}),
                    ('sep_end', (1, 2.5, [3]), {'sep': ', ', 'end': '\n\n'}), ('flush', ('f',), {'flush': True}),
                    ('none_sep', (1, 2), {'sep': None, 'end': None}), ('no_args', (), {}), ('bad_sep_rejected', (1,), {'sep': 5}),
                    ('obj', (Num(1), {'k': (1,)}), {})]:
    yield 'print', 'print(%s)' % ','.join(sorted(kw)), vc, (lambda a=a, kw=kw: (a, dict(kw), []))
    yield 'print', 'print(%s,file)' % ','.join(sorted(kw)), vc, (lambda a=a, kw=kw: (a, dict(kw, file='BUF'), []))


def random_shapes(rng, n):
  for _ in range(n):
    k = rng.random()
    xs = [rng.choice([0, 1, -1, 2.5, True, 3, -4]) for _ in range(rng.randint(0, 5))]
    if k < 0.2:
      yield 'sorted', 'sorted(rand, reverse)', 'random', (lambda xs=xs, r=rng.random() < 0.5: ((list(xs),), {'reverse': r}, []))
    elif k < 0.4:
      def fz(xs=xs, ys=[rng.randint(0, 3) for _ in range(rng.randint(0, 5))], st=rng.random() < 0.5):
        a, b = LogIter(xs), LogIter(ys)
        return (a, b), ({'strict': True} if st else {}), [a, b]
      yield 'zip', 'zip(rand, rand)', 'random', fz
    elif k < 0.55:
      yield 'enumerate', 'enumerate(rand, n)', 'random', (lambda xs=xs, s=rng.randint(-3, 3): ((LogIter(xs), s), {}, []))
    elif k < 0.7:
      def ff(xs=xs):
        it = LogIter(xs)
        return (None, it), {}, [it]
      yield 'filter', 'filter(None, rand)', 'random', ff
    elif k < 0.85:
      yield 'range', 'range(rand)', 'random', (lambda a=(rng.randint(-3, 3), rng.randint(-3, 6), rng.choice([-2, -1, 1, 2, 3])): (a, {}, []))
    else:
      yield 'abs', 'abs(rand)', 'random', (lambda v=rng.choice([rng.randint(-9, 9), -rng.random()]): ((v,), {}, []))


LAZY = ('enumerate', 'filter', 'map', 'zip')


def run_one(fn, factory):
  """Returns a trace describing everything observable about one call."""
  args, kwargs, its = factory()
  buf = None
  if kwargs.get('file') == 'BUF':
    buf = io.StringIO()
    kwargs['file'] = buf
  out = io.StringIO()
  tr = []
  with contextlib.redirect_stdout(out):
    try:
      r = fn(*args, **kwargs)
    except Exception as e:  # pylint:disable=broad-except
      tr.append(('raised', type(e).__name__))
      r = None
    else:
      tr.append(('returned', type(r).__name__))
      tr.append(('pulled_before_first_next', [i.pulled for i in its]))
      if hasattr(r, '__next__'):
        for _ in range(8):
          try:
            v = next(r)
            tr.append(('item', diff.canon(v), [i.pulled for i in its]))
          except StopIteration:
            tr.append(('stop', [i.pulled for i in its]))
            break
          except Exception as e:  # pylint:disable=broad-except
            tr.append(('raised_in_next', type(e).__name__, [i.pulled for i in its]))
            break
      elif isinstance(r, range):
        tr.append(('range', r.start, r.stop, r.step))
      else:
        tr.append(('value', diff.canon(r) if not isinstance(r, float) else repr(r)))
        if isinstance(r, list):
          tr.append(('identity_order', [id(x) for x in r] if False else [repr(x) for x in r]))
  tr.append(('stdout', out.getvalue()))
  if buf is not None:
    tr.append(('file', buf.getvalue()))
  return tr


def judge_shape(cid, bname, label, vc, factory):
  import builtins
  from malt.operators import py_builtins
  b = getattr(builtins, bname)
  ov = py_builtins.overload_of(b)
  out = {'case': cid, 'verdict': 'ok', 'counters': {'overload_calls': 1}}
  if ov is b:
    out['verdict'] = 'inconclusive'
    out['detail'] = 'no overload registered for %s' % bname
    return out
  want = run_one(b, factory)
  # a call shape the builtin's signature rejects is outside the quantifier
  if want[0] == ('raised', 'TypeError') and ('keyword' in _probe_msg(b, factory) or 'positional' in _probe_msg(b, factory)) \
      and 'rejected' not in vc:
    out['verdict'] = 'skip'
    out['counters'] = {'shape_rejected_by_builtin': 1}
    return out
  got = run_one(ov, factory)
  if want[0][0] == 'raised':
    out['counters']['rejected_values'] = 1
  if got != want:
    n = 0
    while n < min(len(got), len(want)) and got[n] == want[n]:
      n += 1
    out['verdict'] = 'violation'
    out['detail'] = '%s [%s]: builtin %r, overload %r' % (label, vc, want[n:n + 2], got[n:n + 2])
    out['witness'] = {'kind': 'shape', 'bname': bname, 'label': label, 'vc': vc}
    return out
  out['nontrivial'] = True
  out['sig'] = '%s|%s|%s' % (bname, label, vc)
  out['trace'] = want[:4]
  return out


def _probe_msg(b, factory):
  args, kwargs, its = factory()
  if kwargs.get('file') == 'BUF':
    kwargs['file'] = io.StringIO()
  try:
    with contextlib.redirect_stdout(io.StringIO()):
      b(*args, **kwargs)
  except TypeError as e:
    return str(e)
  except Exception:  # pylint:disable=broad-except
    return ''
  return ''


FRAME_SRC = '''\
GREF = globals()
class Base(object):
    def who(self, x):
        return ('base', x)
    def val(self):
        return 10
class Child(Base):
    def who(self, x):
        r = []
        for i in range(2):
            if i >= 0:
                r.append(super().who(x + i))
        r.append(super().val())
        return r
    def val(self):
        t = 0
        while t < 1:
            t += 1
            if t:
                return super().val() + 1
class Child2(Base):
    def who(self, x):
        r = []
        for i in range(2):
            if i >= 0:
                r.append(super(Child2, self).who(x + i))
        return r
def f_super_explicit(a, xs):
    return Child2().who(a)
def f_eval0(a, xs):
    y = a + 1
    return (eval('y + a'), eval('len(xs)'))
def f_eval(a, xs):
    y = a + 1
    unused_in_body = a * 7
    r = []
    for i in xs:
        z = i * 2
        if i > 0:
            w = z + y
            r.append(eval('w + z + i'))
            r.append(eval('y + a'))
            r.append(eval('unused_in_body'))
        else:
            r.append(eval('z - 1'))
    n = 0
    while n < 2:
        n += 1
        r.append(eval('n + unused_in_body'))
    return r
def f_locals(a, xs):
    y = a + 1
    hidden = 'h'
    r = []
    for i in xs:
        z = i * 2
        if i > 0:
            w = z + y
            d = locals()
            r.append(sorted((k, d[k]) for k in ('a', 'y', 'hidden', 'i', 'z', 'w') if k in d))
            r.append(sorted(k for k in ('a', 'y', 'hidden', 'i', 'z', 'w', 'xs') if k not in d))
    r.append(sorted(k for k in locals() if k in ('a', 'y', 'hidden', 'r', 'xs')))
    return r
def f_globals(a, xs):
    r = [globals() is GREF]
    for i in xs:
        if i > 0:
            r.append(globals() is GREF)
            r.append(globals()['GREF'] is GREF)
            r.append(eval('GREF is not None', globals()))
    return r
def f_super(a, xs):
    c = Child()
    return (c.who(a), c.val())
def f_callforms(a, xs):
    # every syntactic form of passing arguments to an overloaded builtin, incl. the ones Python rejects
    r = []
    kw = {'reverse': True}
    pos = (xs,)
    for i in range(2):
        if i >= 0:
            r.append(sorted(xs, reverse=False))
            r.append(sorted(*pos, **kw))
            r.append(sorted(xs, **kw))
            r.append(list(enumerate(xs, **{'start': a})))
            r.append(int('101', base=2))
            r.append(int('11', **{'base': a + 2}))
            r.append(list(zip(xs, xs, strict=True)))
            r.append(abs(*[-a]))
            try:
                r.append(sorted(xs, reverse=False, **kw))
            except TypeError:
                r.append('duplicate keyword')
            try:
                r.append(int('5', **{'base': 10}, **{'base': 2}))
            except TypeError:
                r.append('duplicate keyword 2')
            try:
                r.append(list(enumerate(xs, start=1, **{'start': 2})))
            except TypeError:
                r.append('duplicate keyword 3')
            try:
                r.append(len(*pos, *pos))
            except TypeError:
                r.append('arity')
    return r
def f_del_locals(a, xs):
    # a name bound before the loop, rebound and deleted inside its body
    t = 5
    r = [t]
    for i in xs:
        t = i + 1
        u = t
        del t
        r.append('t' in locals())
        r.append(sorted(k for k in locals() if k in ('t', 'u', 'i', 'a')))
        try:
            r.append(eval('t'))
        except NameError:
            r.append('NameError')
        if u > 1:
            w = u
            del w
            r.append('w' in locals())
            try:
                r.append(eval('w + 1'))
            except NameError:
                r.append('NameError w')
    return r
def f_eval_explicit(a, xs):
    q = 100
    r = [eval('q', {'q': 5})]
    for i in xs:
        if i > 0:
            r.append(eval('q + i', {'q': 5}, {'i': i}))
            r.append(eval('q * 2', {'q': a}))
    return r
'''

FRAME_FUNCS = ['f_eval0', 'f_eval', 'f_locals', 'f_globals', 'f_super', 'f_super_explicit', 'f_super', 'f_eval_explicit',
               'f_callforms', 'f_del_locals']
FRAME_INPUTS = ['(1, [1, 2])', '(3, [0, 5, -1])', '(0, [])', '(2, [4])']


def judge_frame(cid, fname, mode):
  import malt
  from malt.impl import api
  out = {'case': cid, 'verdict': 'ok', 'counters': {'frame_builtin_functions': 1}}
  mo = diff.load_instance(FRAME_SRC, 'c14o')
  mc = diff.load_instance(FRAME_SRC, 'c14c')
  try:
    f = getattr(mc, fname)
    if mode == 'to_graph':
      g = malt.to_graph(f)
    elif mode == 'builtins':
      g = malt.to_graph(f, experimental_optional_features=malt.experimental.Feature.BUILTIN_FUNCTIONS)
    else:
      g = api.convert(recursive=True)(f)
    for a in FRAME_INPUTS:
      ao = eval(a, mo.__dict__)  # pylint:disable=eval-used
      ac = eval(a, mc.__dict__)  # pylint:disable=eval-used
      try:
        want = ('ret', diff.canon(getattr(mo, fname)(*ao)))
      except Exception as e:  # pylint:disable=broad-except
        want = ('exc', type(e).__name__)
      try:
        got = ('ret', diff.canon(g(*ac)))
      except Exception as e:  # pylint:disable=broad-except
        got = ('exc', type(e).__name__, str(e)[:200])
      out['counters']['frame_builtin_runs'] = out['counters'].get('frame_builtin_runs', 0) + 1
      if got[:2] != want[:2]:
        out['verdict'] = 'violation'
        out['detail'] = '%s%s (%s): original %r, converted %r' % (fname, a, mode, want, got)
        out['witness'] = {'kind': 'frame', 'fname': fname, 'mode': mode}
        return out
  finally:
    diff.unload(mo)
    diff.unload(mc)
  out['nontrivial'] = True
  out['sig'] = 'frame|%s|%s' % (fname, mode)
  return out


def plan(tier, seed):
  specs = [{'kind': 'shapes', 'part': k, 'parts': 8, 'seed': seed, 'hashseed': seed} for k in range(8)]
  specs.append({'kind': 'frames', 'seed': seed, 'hashseed': seed})
  specs += [{'kind': 'random', 'seed': seed, 'slice': k, 'n': 150 if tier == 'quick' else 3000, 'hashseed': seed + k}
            for k in range(4)]
  return specs


def run_slice(spec):
  if spec['kind'] == 'shapes':
    for idx, (b, label, vc, factory) in enumerate(shapes()):
      if idx % spec['parts'] != spec['part']:
        continue
      out = judge_shape('C14/%s/%s/%s' % (b, label, vc), b, label, vc, factory)
      tr = out.pop('trace', None)
      if out['verdict'] == 'ok' and idx % 60 == 0:
        out['sample'] = {'builtin': b, 'shape': label, 'values': vc, 'trace': tr}
      yield out
  elif spec['kind'] == 'frames':
    for mode in ('to_graph', 'convert', 'builtins'):
      for k, fn in enumerate(FRAME_FUNCS):
        out = judge_frame('C14frame/%d/%s/%s' % (k, fn, mode), fn, mode)
        if out['verdict'] == 'ok':
          out['sig'] = 'frame|%d|%s|%s' % (k, fn, mode)
        yield out
  else:
    rng = random.Random('C14/%d/%d' % (spec['seed'], spec['slice']))
    for i, (b, label, vc, factory) in enumerate(random_shapes(rng, spec['n'])):
      out = judge_shape('C14r/%d/%d/%d' % (spec['seed'], spec['slice'], i), b, label, vc, factory)
      out.pop('trace', None)
      if out['verdict'] == 'ok':
        out['sig'] = '%s|%s|%d' % (b, label, i % 7)
      yield out


def replay(w):
  if w['kind'] == 'frame':
    return judge_frame('replay', w['fname'], w['mode'])
  for b, label, vc, factory in shapes():
    if (b, label, vc) == (w['bname'], w['label'], w['vc']):
      out = judge_shape('replay', b, label, vc, factory)
      out.pop('trace', None)
      return out
  return {'case': 'replay', 'verdict': 'inconclusive', 'detail': 'shape not found'}
