"""C07 — liveness is sound: anything read later is reported live.

Oracle: a backward pass over the global, ordered event list of one twin run
(R adds a variable, W/D remove it, statement boundaries snapshot the set of the
invocation's own variables whose current value is read later, within the
invocation's dynamic extent).
"""
import ast

from vf import stream
from vf.gen import closures
from vf.gen import grammar
from vf.gen import skeleton
from vf.instr import subject as subj
from vf.props import c05

ID = 'C07'
LEVEL = 'exploration'
RULE = ('random programs of profile c06 (loop targets reassigned inside loops, zero-trip loops before a use, variables assigned in '
        'a branch and read only through a nested function, nested functions declaring nonlocal, closures called at later points, '
        'try/except/finally with explicit raise) and enumerated skeletons with all decision vectors; every executed statement '
        'boundary of every invocation is one judged event: the dynamically live variables must be within Analyzer.in_ of the node '
        'about to run, Analyzer.out of the node that just ran, and LIVE_VARS_IN/OUT of compound statements entered/left. '
        'non-trivial = >= 1 boundary with a non-empty dynamic live set judged; distinct = program shape signature')
ASSUMPTIONS = ['reads after the invocation has returned (escaped closures) are outside "the statement that follows" and are not counted',
               'lambdas are called in their defining statement only (documented assumption of the analysis)',
               'boundaries passed while an exception propagates (from an explicit raise to its handler) are not judged: the CFG does not model them']
MIN_JUDGED = {'quick': 300, 'thorough': 3000}
SLICE_TIMEOUT = {'quick': 1500, 'thorough': 7200}


def plan(tier, seed):
  n = 40 if tier == 'quick' else 500
  specs = [{'kind': 'random', 'seed': seed, 'slice': k, 'n': n, 'hashseed': (seed * 16 + k) % 4294967295}
           for k in range(12)]
  specs += [{'kind': 'skeleton', 'seed': seed, 'slice': k, 'parts': 8, 'tier': tier,
             'hashseed': (seed * 16 + k + 1) % 4294967295} for k in range(8)]
  specs.append({'kind': 'closures', 'seed': seed, 'hashseed': seed % 4294967295})
  return specs


def names(qns):
  return {str(q) for q in qns}


def fixed_point_problems(sub):
  from malt.pyct import anno
  probs = []
  n = 0
  for a in sub.recorders.live:
    for node in a.graph.index.values():
      n += 1
      succ_in = set()
      for s in node.next:
        succ_in |= a.in_[s]
      if names(a.out[node]) != names(succ_in):
        probs.append('liveness: out[%r] is not the union of the successors\' in sets' % (node,))
        continue
      if anno.hasanno(node.ast_node, anno.Static.SCOPE):
        scope = anno.getanno(node.ast_node, anno.Static.SCOPE)
        gen = names(scope.read)
        kill = names(scope.modified | scope.deleted)
        need = gen | (names(a.out[node]) - kill)
        if not need <= names(a.in_[node]):
          probs.append('liveness: in[%r] lacks %s required by gen | (out - kill)' % (node, sorted(need - names(a.in_[node]))))
  return probs, n


def compound_ancestors(sub, k):
  out = []
  k = sub.par.get(k)
  while k is not None:
    n = sub.nodes[k]
    if isinstance(n, (ast.FunctionDef, ast.Lambda)):
      break
    if isinstance(n, (ast.If, ast.For, ast.While, ast.Try, ast.ExceptHandler)):
      out.append(k)
    k = sub.par.get(k)
  return out


def judge(cid, src, inputs, fnames):
  from malt.pyct import anno
  out = {'case': cid, 'verdict': 'ok', 'counters': {}}
  C = out['counters']
  try:
    sub = subj.Subject(src)
    sub.analyse(fnames, upto='liveness')
  except Exception as e:  # pylint:disable=broad-except
    out['verdict'] = 'skip'
    out['detail'] = 'analysis failed (C05/C01 business): %s: %s' % (type(e).__name__, str(e)[:200])
    C['skipped_analysis_error'] = 1
    return out
  probs, nn = fixed_point_problems(sub)
  C['fixed_point_nodes_checked'] = nn
  # analyzer per function
  an_by_fid = {}
  for fn, g in sub.graphs.items():
    if isinstance(fn, ast.FunctionDef):
      for a in sub.recorders.live:
        if a.graph is g:
          an_by_fid[fn._vf_k] = (a, {getattr(n.ast_node, '_vf_k', None): n for n in g.index.values()})
  if not probs:
    for a_in in inputs:
      ref = sub.run_plain('f', a_in)
      res, events = sub.run('f', a_in)
      if ref['kind'] == 'timeout' or res['kind'] == 'timeout':
        C['watchdog_inconclusive'] = C.get('watchdog_inconclusive', 0) + 1
        continue
      if (ref['kind'], ref.get('value'), ref['log']) != (res['kind'], res.get('value'), res['log']):
        out['verdict'] = 'inconclusive'
        out['detail'] = 'twin diverges from the original (harness)\n' + stream.body_of(src)
        return out
      inv_fid = {}
      for ev in events:
        if ev[0] == 'enter':
          inv_fid[ev[1]] = ev[2]
      # backward pass
      live = {}            # inv -> set(names)
      snap = [None] * len(events)
      for t in range(len(events) - 1, -1, -1):
        ev = events[t]
        if ev[0] == 'R':
          live.setdefault(ev[1], set()).add(ev[2])
        elif ev[0] in ('W', 'D'):
          live.get(ev[1], set()).discard(ev[2])
        elif ev[0] == 'exit':
          live[ev[1]] = set()     # reads after the invocation returned do not count
        elif ev[0] == 'node':
          snap[t] = frozenset(live.get(ev[1], ()))
      # forward: judge boundaries
      prev_node = {}       # inv -> k
      prop = {}            # inv -> node id of the raise whose exception is propagating
      for t, ev in enumerate(events):
        if ev[0] != 'node':
          continue
        inv, k = ev[1], ev[2]
        fid = inv_fid.get(inv)
        if fid not in an_by_fid:
          continue
        an, by_k = an_by_fid[fid]
        node = by_k.get(k)
        if node is None:
          continue
        L = snap[t]
        pk = prev_node.get(inv)
        prev_node[inv] = k
        if pk is not None and isinstance(sub.nodes[pk], ast.Raise):
          prop[inv] = pk
        if inv in prop:
          # exempt: statements run while the exception propagates (finally bodies) and the jump into the handler
          if c05.in_propagation_finally(sub, k, prop[inv]):
            C['boundaries_during_propagation_not_judged'] = C.get('boundaries_during_propagation_not_judged', 0) + 1
            continue
          del prop[inv]
          pk = None     # the edge from the finally body to the handler is not in the model; judge the entry only
        C['boundaries_judged'] = C.get('boundaries_judged', 0) + 1
        if L:
          C['nonempty_live_sets'] = C.get('nonempty_live_sets', 0) + 1
        miss = L - names(an.in_[node])
        if miss:
          probs.append('input %s: %s is read later but is not live at the entry of `%s` (line %s)' % (
              a_in, sorted(miss), node, getattr(node.ast_node, 'lineno', '?')))
          break
        if pk is not None and by_k.get(pk) is not None:
          pnode = by_k[pk]
          miss = L - names(an.out[pnode])
          if miss:
            probs.append('input %s: %s is read later but is not live at the exit of `%s` (line %s)' % (
                a_in, sorted(miss), pnode, getattr(pnode.ast_node, 'lineno', '?')))
            break
          # compound statements left / entered between pk and k
          pa, ka = compound_ancestors(sub, pk), compound_ancestors(sub, k)
          for sk in pa:
            if sk not in ka and sk != k:
              st = sub.nodes[sk]
              lo = anno.getanno(st, anno.Static.LIVE_VARS_OUT, None)
              if lo is not None:
                C['statement_exits_judged'] = C.get('statement_exits_judged', 0) + 1
                miss = L - names(lo)
                if miss:
                  probs.append('input %s: leaving the %s at line %d, %s is read later but LIVE_VARS_OUT lacks it' % (
                      a_in, type(st).__name__, st.lineno, sorted(miss)))
                  break
          if probs:
            break
          for sk in ka:
            if sk not in pa:
              st = sub.nodes[sk]
              li = anno.getanno(st, anno.Static.LIVE_VARS_IN, None)
              # the statement's own entry node
              entry_k = {ast.If: lambda s: s.test._vf_k, ast.While: lambda s: s.test._vf_k,
                         ast.For: lambda s: s.iter._vf_k}.get(type(st))
              if li is not None and entry_k is not None and entry_k(st) == k:
                C['statement_entries_judged'] = C.get('statement_entries_judged', 0) + 1
                miss = L - names(li)
                if miss:
                  probs.append('input %s: entering the %s at line %d, %s is read later but LIVE_VARS_IN lacks it' % (
                      a_in, type(st).__name__, st.lineno, sorted(miss)))
                  break
          if probs:
            break
      if probs:
        break
  if probs:
    out['verdict'] = 'violation'
    out['detail'] = '; '.join(probs[:2]) + '\n--- program ---\n' + '\n'.join(
        '%3d %s' % (i + 1, l) for i, l in enumerate(src.split('\n')) if i + 1 > grammar.PREAMBLE.count('\n'))
    out['witness'] = {'src': src, 'inputs': inputs, 'fnames': fnames}
    return out
  out['nontrivial'] = C.get('nonempty_live_sets', 0) > 0
  out['sig'] = grammar.shape_signature(src)
  return out


def fnames_of(src):
  return [n.name for n in ast.parse(src).body if isinstance(n, ast.FunctionDef) and (
      n.name == 'f' or (n.name.startswith('g') and n.name[1:].isdigit()))]


def run_slice(spec):
  if spec['kind'] == 'random':
    for i in range(spec['n']):
      cid = 'C07/%d/%d/%d' % (spec['seed'], spec['slice'], i)
      src, meta = grammar.gen_module(cid, grammar.profile('c07'))
      inputs = grammar.gen_inputs(cid, 5)
      out = judge(cid, src, inputs, fnames_of(src))
      if out['verdict'] == 'ok' and i % 10 == 2:
        out['sample'] = {'case': cid, 'inputs': inputs[:2], 'boundaries_judged': out['counters'].get('boundaries_judged'),
                         'nonempty_live_sets': out['counters'].get('nonempty_live_sets'), 'program': stream.body_of(src)[:1500]}
      yield out
  elif spec['kind'] == 'closures':
    for cid, src, inputs in closures.cases():
      if '/lambda/' in cid:
        continue    # lambdas called later are outside the analysis' documented assumption
      out = judge('C07' + cid, src, inputs, ['f'])
      out['counters']['closure_programs'] = 1
      if out['verdict'] == 'ok':
        out['sig'] = cid
      yield out
  else:
    for cid, src, inputs in skeleton.cases(spec['seed'], spec['slice'], spec['parts'], spec['tier']):
      out = judge(cid.replace('skel/', 'C07skel/'), src, inputs[:16], ['f'])
      out['counters']['skeletons'] = 1
      yield out


def replay(w):
  return judge('replay', w['src'], w['inputs'], w['fnames'])


def conclusive(cov, tier):
  if cov.get('boundaries_judged', 0) < 20000:
    return 'only %s boundaries judged' % cov.get('boundaries_judged')
  return None
