"""C03 — emitted operator calls obey the operator calling contract.

Every dynamic invocation of if_stmt/while_stmt/for_stmt/if_exp/and_/or_/not_
made by real generated code is intercepted by vf.mon.ops.ContractMonitor,
judged against the documented contract, and then delegated to the real
operator.
"""
import random
import sys

from vf import diff
from vf import stream
from vf.gen import grammar
from vf.gen import skeleton
from vf.mon import ops

ID = 'C03'
LEVEL = 'exploration'
RULE = ('programs from the seeded grammar (profile c03 = C01 class + set_loop_options directives in first-statement '
        'position of random loops + attribute/key state) and sampled skeletons, converted by to_graph/convert and run on 5 '
        'inputs under the contract monitor; every operator invocation is one monitored event; a case is non-trivial when '
        'at least one state tuple was judged; distinct = distinct program shape signature')
ASSUMPTIONS = [
    'the calling frame of the operator (sys._getframe(1)) is the generated code that owns or closes over the state variables',
    'sentinel write-then-read is skipped when a composite entry is Undefined (writing it back would create the attribute/key)',
    'no aliasing between composite state names in generated programs (only one Obj and one dict argument exist)',
]
MIN_JUDGED = {'quick': 300, 'thorough': 3000}
SLICE_TIMEOUT = {'quick': 1500, 'thorough': 7200}


def plan(tier, seed):
  n = 40 if tier == 'quick' else 500
  specs = [{'kind': 'random', 'seed': seed, 'slice': k, 'n': n, 'hashseed': (seed * 16 + k) % 4294967295}
           for k in range(16)]
  for k in range(4 if tier == 'quick' else 16):
    specs.append({'kind': 'skeleton', 'seed': seed, 'slice': k, 'parts': 16, 'tier': tier,
                  'hashseed': (seed * 16 + k + 3) % 4294967295})
  return specs


def _directive_watch():
  """sys.monitoring PY_START on set_loop_options: must never run from converted code."""
  from malt.lang import directives
  hits = []
  mon = sys.monitoring
  tool = 3
  try:
    mon.use_tool_id(tool, 'vf-c03')
  except ValueError:
    pass
  code = directives.set_loop_options.__code__

  def cb(c, off):
    hits.append(1)

  mon.register_callback(tool, mon.events.PY_START, cb)

  def arm(on):
    mon.set_local_events(tool, code, mon.events.PY_START if on else 0)

  def stop():
    mon.set_local_events(tool, code, 0)
    mon.register_callback(tool, mon.events.PY_START, None)
    try:
      mon.free_tool_id(tool)
    except ValueError:
      pass
  return hits, stop, arm


def judge(cid, src, inputs, mode, feats, meta):
  out = {'case': cid, 'verdict': 'ok', 'counters': {}}
  base = stream.diff_case(src, inputs, mode, feats)
  if base['verdict'] != 'ok':
    # C01's business (or unloadable): not judged here
    out['verdict'] = 'skip'
    out['counters'] = {'skipped_c01_divergent': 1}
    out['detail'] = (base.get('detail') or '')[:600]
    return out
  full = src + stream.CALLER_SRC
  mo = diff.load_instance(full, 'o')
  mc = diff.load_instance(full, 'c')
  exp = None
  if meta is not None:
    exp = dict(meta.get('directives', {}))
    exp['__all_markers__'] = set(meta.get('loops', []))
    exp['__ambiguous__'] = set(meta.get('ambiguous', []))
  mon = ops.ContractMonitor(log_getter=lambda: mc.LOG, expected_directives=exp)
  hits, stop, arm = _directive_watch()
  detail = None
  try:
    g, unwrap = stream.convert(mc, mode, feats)
    with mon:
      for a in inputs:
        o = diff.run(mo.f, mo, a)
        arm(True)
        try:
          c = diff.run(g, mc, a, unwrap_convert=unwrap)
        finally:
          arm(False)
        if o['kind'] in ('timeout', 'overflow') or c['kind'] == 'timeout':
          del mon.suspects[:]
          continue
        if mon.suspects:
          # an unbound name inside a composite state symbol is only legitimate when the program itself reads an
          # unbound variable there (both runs then end in a NameError)
          if not (o['kind'] == 'exc' and o.get('value') == 'NameError'):
            detail = 'input %s: %s' % (a, mon.suspects[0])
          del mon.suspects[:]
        bad = diff.compare(o, c)
        if bad and not mon.violations:
          if 'PoisonRead' in bad or 'PoisonRead' in str(c.get('exc_text', '')) or c.get('value') == 'PoisonRead':
            detail = 'input %s: a variable placed after nouts was read later: %s' % (a, bad)
          elif '<POISON>' in bad:
            # the value the monitor put into a non-output position left the function unread: in a global, through a
            # nonlocal, or in the returned value
            detail = 'input %s: a variable placed after nouts is observable after the statement: %s' % (a, bad)
          else:
            out['verdict'] = 'inconclusive'
            out['detail'] = 'monitor changed behaviour (harness): input %s: %s\n%s' % (a, bad, stream.body_of(src))
            return out
        if mon.violations or detail:
          break
  finally:
    stop()
    diff.unload(mo)
    diff.unload(mc)
  if hits:
    detail = detail or 'set_loop_options executed %d time(s) from converted code: directive call not removed' % len(hits)
  out['counters'] = dict(mon.counters)
  out['counters']['cases_run'] = 1
  if mon.violations or detail:
    out['verdict'] = 'violation'
    out['detail'] = (detail or '; '.join(mon.violations[:3])) + '\n--- program ---\n' + stream.body_of(src)
    out['witness'] = {'src': src, 'inputs': inputs, 'mode': mode, 'feats': feats, 'meta': _meta_json(meta)}
    return out
  out['nontrivial'] = mon.counters.get('state_invocations_judged', 0) > 0
  out['sig'] = grammar.shape_signature(src)
  out['mon_samples'] = mon.samples
  return out


def _meta_json(meta):
  if meta is None:
    return None
  return {'directives': meta.get('directives', {}), 'loops': list(meta.get('loops', [])),
          'ambiguous': list(meta.get('ambiguous', []))}


def run_slice(spec):
  if spec['kind'] == 'random':
    for i in range(spec['n']):
      cid = 'C03/%d/%d/%d' % (spec['seed'], spec['slice'], i)
      rng = random.Random(cid)
      src, meta = grammar.gen_module(cid, grammar.profile('c03'))
      inputs = grammar.gen_inputs(cid, 5)
      mode = rng.choice(['to_graph', 'to_graph', 'convert', 'via_call'])
      feats = rng.choice(stream.FEATURE_SETS)
      out = judge(cid, src, inputs, mode, feats, meta)
      if out['verdict'] == 'ok' and i % 10 == 3:
        out['sample'] = {'case': cid, 'mode': mode, 'operator_invocations': {
            k: v for k, v in out['counters'].items() if k in ops.WRAPPED},
                         'monitored_state_tuples': out.get('mon_samples', [])[:2],
                         'directives': meta.get('directives'), 'program': stream.body_of(src)[:1500]}
      out.pop('mon_samples', None)
      yield out
  else:
    for cid, src, inputs in skeleton.cases(spec['seed'], spec['slice'], spec['parts'], spec['tier']):
      out = judge(cid.replace('skel/', 'C03skel/'), src, inputs[:12], 'to_graph', [], None)
      out.pop('mon_samples', None)
      yield out


def replay(w):
  return judge('replay', w['src'], w['inputs'], w['mode'], w['feats'], w.get('meta'))


def conclusive(cov, tier):
  need = 3000 if tier == 'quick' else 30000
  if cov.get('state_invocations_judged', 0) < need:
    return 'only %d state tuples judged (< %d)' % (cov.get('state_invocations_judged', 0), need)
  if cov.get('sentinel_probes', 0) == 0 or cov.get('loop_opts_checked', 0) == 0:
    return 'sentinel probe or loop-option check never ran'
  return None
