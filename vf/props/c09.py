"""C09 — converted functions keep the original calling interface and environment.

The reference is the function object itself (inspect.signature, __defaults__,
__kwdefaults__, __globals__, __closure__) and CPython's own argument binding
(f(*a, **k) accept/reject).
"""
import inspect
import random
import sys

from vf import diff

ID = 'C09'
LEVEL = 'exploration'
RULE = ('random signatures over all five parameter kinds with/without defaults (identity-sensitive sentinels, mutable '
        'defaults, defaults whose evaluation is logged), 0-4 free variables (unused, rebound through a sibling setter, rebound by '
        'the function itself, unassigned at conversion time, shared by functions made in a loop from one code object), plain '
        'functions / lambdas / methods / nested functions / decorated functions; each converted by to_graph and convert and '
        'called with 14 well- and ill-formed bindings; non-trivial = signature with >=1 parameter and all interface checks ran; '
        'distinct = (signature shape, closure shape, entity kind)')
ASSUMPTIONS = ['CPython argument binding of the original function is the reference for accept/reject and results']
MIN_JUDGED = {'quick': 300, 'thorough': 3000}
SLICE_TIMEOUT = {'quick': 1200, 'thorough': 5400}

HEADER = '''\
import functools
LOG = []
def D(tag, v):
    LOG.append(('default', tag))
    return v
def DECO(fn):
    LOG.append(('deco', fn.__name__))
    fn.decorated = True
    return fn
S1 = object()
S2 = object()
MUT = []
MUTD = {}
G = 5
'''


def gen_signature(rng):
  npo = rng.choice([0, 0, 1, 2])
  npk = rng.choice([0, 1, 2, 3])
  var = rng.random() < 0.4
  nko = rng.choice([0, 0, 1, 2])
  kw = rng.random() < 0.4
  names = []
  params = []
  ndef = rng.randint(0, npo + npk)
  defaults_pool = ['S1', 'S2', 'MUT', 'MUTD', "D('@', [])", "D('@', 7)", '3', 'None', 'G']
  pos = ['p%d' % i for i in range(npo)] + ['a%d' % i for i in range(npk)]
  for i, n in enumerate(pos):
    s = n
    if i >= len(pos) - ndef:
      s += '=' + rng.choice(defaults_pool).replace('@', n)
    params.append(s)
    names.append(n)
    if npo and i == npo - 1:
      params.append('/')
  if var:
    params.append('*va')
    names.append('va')
  elif nko:
    params.append('*')
  for i in range(nko):
    n = 'k%d' % i
    s = n
    if rng.random() < 0.5:
      s += '=' + rng.choice(defaults_pool).replace('@', n)
    params.append(s)
    names.append(n)
  if kw:
    params.append('**kws')
    names.append('kws')
  shape = (npo, npk, var, nko, kw, ndef)
  return ', '.join(params), names, pos, ['k%d' % i for i in range(nko)], shape


def gen_case(seed):
  rng = random.Random(seed)
  sig, names, pos, kwonly, shape = gen_signature(rng)
  kind = rng.choice(['closure', 'closure', 'plain', 'method', 'lambda', 'loop', 'late', 'decorated'])
  ncl = rng.randint(0, 3)
  body_vals = ', '.join(names) if names else '0'
  L = [HEADER]
  meta = {'kind': kind, 'shape': shape, 'pos': pos, 'kwonly': kwonly, 'names': names}
  ctrl = [
      '        r = 0',
      '        for i_ in range(2):',
      '            if i_:',
      '                r += 1',
  ]
  if kind == 'plain':
    L.append('def f(%s):' % sig)
    L += [l[4:] for l in ctrl]
    L.append('    return (r, G, %s)' % body_vals)
    meta['closure'] = []
  elif kind == 'decorated':
    L.append('@DECO')
    L.append('def f(%s):' % sig)
    L += [l[4:] for l in ctrl]
    L.append('    return (r, %s)' % body_vals)
    meta['closure'] = []
  elif kind == 'lambda':
    L.append('def make(c0, c1):')
    L.append('    f = lambda %s: (c0 if c1 else G, %s)' % (sig, body_vals))
    L.append('    def setc(v):')
    L.append('        nonlocal c1')
    L.append('        c1 = v')
    L.append('    return f, setc, (lambda: c1)')
    L.append('f, setc, getc = make(10, 11)')
    meta['closure'] = ['c0', 'c1']
    meta['setter'] = 'c1'
  elif kind == 'method':
    L.append('class K(object):')
    L.append('    def __init__(self):')
    L.append('        self.z = 9')
    msig = 'self' + (', ' + sig if sig else '')
    if sig.startswith('/'):
      msig = 'self, ' + sig
    # a leading '/' cannot follow self directly; regenerate trivial
    L.append('    def f(%s):' % msig.replace('self, /', 'self, /') if not sig.startswith('/') else '    def f(self):')
    L += ctrl
    L.append('        return (r, self.z, %s)' % (body_vals if not sig.startswith('/') else '0'))
    L.append('OBJ = K()')
    L.append('f = OBJ.f')
    meta['closure'] = []
  elif kind == 'loop':
    L.append('def mk(n, c0):')
    L.append('    def f(%s):' % sig)
    L += ctrl
    L.append('        return (r, n, c0, %s)' % body_vals)
    L.append('    return f')
    L.append('FS = [mk(i, i * 10) for i in range(3)]')
    L.append('f = FS[1]')
    meta['closure'] = ['n', 'c0']
  elif kind == 'late':
    L.append('def make(conv):')
    L.append('    def f(%s):' % sig)
    L += ctrl
    L.append('        return (r, late, %s)' % body_vals)
    L.append('    g = conv(f)')
    L.append('    late = 77')
    L.append('    return f, g')
    meta['closure'] = ['late']
  else:
    cl = ['c%d' % i for i in range(ncl)]
    L.append('def make(%s):' % ', '.join(cl + ['w']))
    L.append('    unused = 1')
    L.append('    def f(%s):' % sig)
    if cl:
      L.append('        nonlocal %s' % cl[-1])
    L += ctrl
    if cl:
      L.append('        if r:')
      L.append('            %s = %s + 1' % (cl[-1], cl[-1]))
    L.append('        return (r, %s)' % ', '.join(cl + [body_vals]))
    if cl:
      L.append('    def setc(v):')
      L.append('        nonlocal %s' % cl[0])
      L.append('        %s = v' % cl[0])
      L.append('    def getc():')
      L.append('        return (%s,)' % ', '.join(cl))
      L.append('    return f, setc, getc')
      L.append('f, setc, getc = make(%s)' % ', '.join(str(20 + i) for i in range(ncl + 1)))
      L.append('f_b, setc_b, getc_b = make(%s)' % ', '.join(str(20 + i) for i in range(ncl + 1)))
      meta['second_instance'] = True
    else:
      L.append('    return f, None, None')
      L.append('f, setc, getc = make(0)')
    meta['closure'] = cl
    if cl:
      meta['setter'] = cl[0]
      meta['selfwrite'] = cl[-1]
  return '\n'.join(L) + '\n', meta


def gen_calls(rng, meta, n=14):
  pos, kwonly = meta['pos'], meta['kwonly']
  calls = []
  for _ in range(n):
    na = rng.randint(0, len(pos) + 2)
    args = [rng.choice(['1', '2', "'x'", '[]', 'None']) for _ in range(na)]
    kws = {}
    for k in kwonly:
      if rng.random() < 0.7:
        kws[k] = rng.choice(['1', "'k'", 'None'])
    for p in pos:
      if rng.random() < 0.25:
        kws[p] = '5'
    if rng.random() < 0.2:
      kws['zz'] = '0'
    calls.append('(%s)' % ', '.join(args + ['%s=%s' % kv for kv in sorted(kws.items())]))
  return calls


def call(fn, module, callsrc, prefix=''):
  try:
    v = eval('__fn%s' % callsrc.replace('(', '(' + prefix, 1) if prefix else '__fn' + callsrc,  # pylint:disable=eval-used
             dict(module.__dict__, __fn=fn))
    return ('ret', diff.canon(v))
  except Exception as e:  # pylint:disable=broad-except
    return ('exc', type(e).__name__)


def check_pair(f, g, module, meta, calls, log_before, probs, counters):
  if len(module.LOG) != log_before:
    probs.append('conversion re-evaluated defaults / re-applied decorators: LOG grew by %r' % (module.LOG[log_before:],))
  try:
    sf, sg = inspect.signature(f), inspect.signature(g)
  except (TypeError, ValueError) as e:
    probs.append('signature not inspectable: %r' % (e,))
    return
  pf = [(p.name, p.kind) for p in sf.parameters.values()]
  pg = [(p.name, p.kind) for p in sg.parameters.values()]
  counters['signatures_compared'] += 1
  if pf != pg:
    probs.append('signature differs: original %s, converted %s' % (sf, sg))
  for a, b in zip(sf.parameters.values(), sg.parameters.values()):
    if (a.default is a.empty) != (b.default is b.empty):
      probs.append('parameter %s: default presence differs (%s vs %s)' % (a.name, sf, sg))
    elif a.default is not a.empty and a.default is not b.default:
      probs.append('parameter %s: default is not the same object' % a.name)
    counters['defaults_compared'] += 1
  if g.__globals__ is not f.__globals__:
    probs.append('__globals__ is not the same dictionary')
  # closure cells by name
  fcells = dict(zip(f.__code__.co_freevars, f.__closure__ or ()))
  gcells = dict(zip(g.__code__.co_freevars, g.__closure__ or ()))
  for name, cellobj in fcells.items():
    counters['cells_compared'] += 1
    if name in gcells and gcells[name] is not cellobj:
      probs.append('free variable %s: converted function does not share the cell' % name)
  sw = meta.get('selfwrite')
  for c in calls:
    if sw and sw in fcells:
      fcells[sw].cell_contents = 500
    a = call(f, module, c)
    if sw and sw in fcells:
      fcells[sw].cell_contents = 500
    b = call(g, module, c)
    counters['calls_compared'] += 1
    if a[0] == 'exc':
      counters['rejected_calls'] += 1
    if a != b:
      probs.append('call %s: original %r, converted %r' % (c, a, b))
      break


def judge(cid, seed):
  import malt
  from malt.impl import api
  import collections
  src, meta = gen_case(seed)
  rng = random.Random(str(seed) + 'calls')
  calls = gen_calls(rng, meta)
  out = {'case': cid, 'verdict': 'ok', 'counters': {}}
  counters = collections.Counter()
  probs = []
  m = diff.load_instance(src, 'c9')
  try:
    convs = [('to_graph', lambda fn: malt.to_graph(fn)),
             ('to_graph_nonrec', lambda fn: malt.to_graph(fn, recursive=False))]
    for cname, conv in convs:
      if probs:
        break
      kind = meta['kind']
      if kind == 'late':
        marks = []

        def conv2(fn, conv=conv, marks=marks):
          marks.append(len(m.LOG))
          r = conv(fn)
          marks.append(len(m.LOG))
          return r
        try:
          f, g = m.make(conv2)
          log0 = len(m.LOG) - (marks[1] - marks[0])
        except Exception as e:  # pylint:disable=broad-except
          probs.append('%s: converting a function whose closure variable is not assigned yet failed: %s: %s' % (
              cname, type(e).__name__, str(e)[:200]))
          break
        check_pair(f, g, m, meta, calls, log0, probs, counters)
        continue
      f = m.f
      log0 = len(m.LOG)
      try:
        g = conv(f)
        if meta.get('second_instance'):
          # converted back to back, while the cells of both instances hold equal values
          g_b = conv(m.f_b)
      except Exception as e:  # pylint:disable=broad-except
        probs.append('%s failed: %s: %s' % (cname, type(e).__name__, str(e)[:300]))
        break
      if kind == 'method':
        if inspect.ismethod(g):
          probs.append('converted bound method is still bound')
        else:
          for c in calls:
            a = call(f, m, c)
            cc = '(OBJ, ' + c[1:] if c != '()' else '(OBJ)'
            b = call(g, m, cc)
            counters['calls_compared'] += 1
            if a != b:
              probs.append('method call %s: bound original %r, converted(instance first) %r' % (c, a, b))
              break
          if len(m.LOG) != log0:
            probs.append('conversion produced side effects: %r' % (m.LOG[log0:],))
          counters['methods_checked'] += 1
        continue
      check_pair(f, g, m, meta, calls, log0, probs, counters)
      if kind == 'decorated' and not probs:
        if len([e for e in m.LOG if e[0] == 'deco']) != 1:
          probs.append('decorator applied %d times' % len([e for e in m.LOG if e[0] == 'deco']))
      if meta.get('setter') and not probs:
        # rebinding through the sibling setter must be seen by both; rebinding by g by f's getter
        m.setc(12345)
        a = call(f, m, calls[0])
        # find a call that both accept
        good = [c for c in calls if call(f, m, c)[0] == 'ret']
        fc = dict(zip(f.__code__.co_freevars, f.__closure__ or ()))
        if good:
          m.setc(4321)
          if meta.get('selfwrite') in fc:
            fc[meta['selfwrite']].cell_contents = 600
          ra = call(f, m, good[0])
          m.setc(4321)
          if meta.get('selfwrite') in fc:
            fc[meta['selfwrite']].cell_contents = 600
          rb = call(g, m, good[0])
          counters['rebind_checks'] += 1
          if ra != rb:
            probs.append('after sibling setter rebinding %s: original %r, converted %r' % (meta['setter'], ra, rb))
          if meta.get('selfwrite'):
            before = m.getc()
            call(g, m, good[0])
            after = m.getc()
            counters['rebind_checks'] += 1
            if before == after and meta['selfwrite'] != meta['setter']:
              probs.append('rebinding of %s made by the converted function is not visible through the original closure (%r -> %r)' % (
                  meta['selfwrite'], before, after))
      if meta.get('second_instance') and not probs:
        # a second closure over the same code object whose cells hold equal values
        cb = collections.Counter()
        check_pair(m.f_b, g_b, m, dict(meta, selfwrite=meta.get('selfwrite')), calls, len(m.LOG), probs, cb)
        counters['second_instances_checked'] += 1
        good = [c for c in calls if call(m.f_b, m, c)[0] == 'ret']
        if good and not probs:
          m.setc_b(777)
          fcb = dict(zip(m.f_b.__code__.co_freevars, m.f_b.__closure__ or ()))
          if meta.get('selfwrite') in fcb:
            fcb[meta['selfwrite']].cell_contents = 600
          ra = call(m.f_b, m, good[0])
          if meta.get('selfwrite') in fcb:
            fcb[meta['selfwrite']].cell_contents = 600
          rb = call(g_b, m, good[0])
          if ra != rb:
            probs.append('second closure instance (equal cell contents at conversion): after rebinding %s original %r, converted %r' % (
                meta['setter'], ra, rb))
      if kind == 'loop' and not probs:
        gs = [conv(h) for h in m.FS]
        good = [c for c in calls if call(m.FS[0], m, c)[0] == 'ret']
        for h, gh in zip(m.FS, gs):
          for c in good[:3]:
            counters['calls_compared'] += 1
            if call(h, m, c) != call(gh, m, c):
              probs.append('functions sharing one code object confused: %s gives %r vs %r' % (c, call(h, m, c), call(gh, m, c)))
  finally:
    diff.unload(m)
  out['counters'] = dict(counters)
  if probs:
    out['verdict'] = 'violation'
    out['detail'] = '; '.join(probs[:3]) + '\n--- module ---\n' + src[len(HEADER):]
    out['witness'] = {'seed': seed}
    return out
  out['nontrivial'] = bool(meta['names']) or meta['kind'] == 'method'
  out['sig'] = '%s|%s|%s' % (meta['kind'], meta['shape'], len(meta['closure']))
  out['src'] = src[len(HEADER):]
  out['calls'] = calls[:4]
  return out


def judge_twin(cid, seed):
  """Two module files whose functions have equal code objects (same body, arity
  and line numbers) but differ in which parameters have defaults; converted one
  after the other in this process, in both orders."""
  import malt
  import collections
  import re
  rng = random.Random(str(seed) + 'twin')
  sig, names, pos, kwonly, shape = gen_signature(rng)
  nodef = re.sub(r"=(D\('[^']*', [^)]*\)|[A-Za-z0-9_]+)", '', sig)
  alldef = ', '.join((p + '=S1') if (p not in ('/', '*') and not p.startswith('*') and '=' not in p) else p
                     for p in sig.split(', ')) if sig else sig
  body = ['    r = 0', '    for i_ in range(2):', '        if i_:', '            r += 1',
          '    return (r, G, %s)' % (', '.join(names) if names else '0')]
  meta = {'kind': 'twin', 'shape': shape, 'pos': pos, 'kwonly': kwonly, 'names': names, 'closure': []}
  calls = gen_calls(rng, meta)
  out = {'case': cid, 'verdict': 'ok', 'counters': {}}
  counters = collections.Counter()
  probs = []
  variants = [s_ for s_ in (nodef, sig, alldef)]
  order = [0, 1, 2] if rng.random() < 0.5 else [2, 1, 0]
  mods = []
  try:
    for k in order:
      src = HEADER + 'def f(%s):\n' % variants[k] + '\n'.join(body) + '\n'
      try:
        compile(src, 'x', 'exec')
      except SyntaxError:
        continue   # e.g. non-default after default
      m = diff.load_instance(src, 'c9t')
      mods.append(m)
      log0 = len(m.LOG)
      g = malt.to_graph(m.f)
      check_pair(m.f, g, m, meta, calls, log0, probs, counters)
      if probs:
        probs[0] = 'after converting an equal-code function with other defaults first: ' + probs[0]
        out['detail_src'] = src[len(HEADER):]
        break
      # the very same code object over another globals dictionary (a module body executed into two namespaces)
      import types
      m2 = diff.load_instance(src, 'c9t')
      mods.append(m2)
      m2.G = m2.G + 1000
      clone = types.FunctionType(m.f.__code__, m2.__dict__, 'f', m.f.__defaults__, None)
      clone.__kwdefaults__ = dict(m.f.__kwdefaults__) if m.f.__kwdefaults__ else None
      log0 = len(m2.LOG)
      g2 = malt.to_graph(clone)
      counters['same_code_other_globals'] += 1
      check_pair(clone, g2, m2, meta, calls, log0, probs, counters)
      if probs:
        probs[0] = 'same code object over another globals dictionary, converted second: ' + probs[0]
        out['detail_src'] = src[len(HEADER):]
        break
  finally:
    for m in mods:
      diff.unload(m)
  out['counters'] = dict(counters)
  out['counters']['equal_code_twins'] = 1
  if probs:
    out['verdict'] = 'violation'
    out['detail'] = '; '.join(probs[:3]) + '\n--- module (one of the equal-code variants) ---\n' + out.pop('detail_src', '')
    out['witness'] = {'seed': seed, 'twin': True}
    return out
  out.pop('detail_src', None)
  out['nontrivial'] = bool(names)
  out['sig'] = 'twin|%s' % (shape,)
  return out


def plan(tier, seed):
  n = 60 if tier == 'quick' else 800
  return [{'seed': seed, 'slice': k, 'n': n, 'hashseed': (seed * 16 + k) % 4294967295} for k in range(16)]


def run_slice(spec):
  for i in range(spec['n']):
    cid = 'C09/%d/%d/%d' % (spec['seed'], spec['slice'], i)
    out = judge(cid, cid)
    src = out.pop('src', None)
    calls = out.pop('calls', None)
    if out['verdict'] == 'ok' and i % 20 == 5:
      out['sample'] = {'case': cid, 'module': src, 'calls': calls}
    yield out
    if i % 3 == 0:
      yield judge_twin(cid + '/twin', cid)


def replay(w):
  if w.get('twin'):
    return judge_twin('replay', w['seed'])
  return judge('replay', w['seed'])
