"""Worker: python -m vf.worker <ID> <spec.json>; prints one '@@R <json>' per case."""
import importlib
import json
import os
import sys
import traceback

MARK = '@@R '


def emit(obj):
  sys.stdout.write(MARK + json.dumps(obj, default=str) + '\n')
  sys.stdout.flush()


def main():
  pid, spec_path = sys.argv[1], sys.argv[2]
  with open(spec_path) as f:
    spec = json.load(f)
  repo = os.environ.get('VERIF_REPO', '/repo')
  import logging
  import resource
  import faulthandler
  import signal
  logging.getLogger().addHandler(logging.NullHandler())
  faulthandler.register(signal.SIGUSR1, all_threads=True)
  try:
    lim = int(os.environ.get('VERIF_MEM_MB', '6000')) * 1024 * 1024
    resource.setrlimit(resource.RLIMIT_AS, (lim, lim))
  except (ValueError, OSError):
    pass
  import malt
  if not os.path.abspath(malt.__file__).startswith(os.path.abspath(repo) + os.sep):
    emit({'verdict': 'inconclusive', 'detail': 'malt not imported from %s: %s' % (repo, malt.__file__)})
    emit({'_done': True})
    return 0
  mod = importlib.import_module('vf.props.' + pid.lower())
  try:
    if spec.get('mode') == 'replay':
      r = mod.replay(spec['witness'])
      rs = r if isinstance(r, list) else [r]
      for x in rs:
        x.setdefault('hashseed', spec.get('hashseed', 0))
        emit(x)
    else:
      for r in mod.run_slice(spec):
        r.setdefault('hashseed', spec.get('hashseed', 0))
        emit(r)
  except Exception:  # harness error: never a violation
    emit({'verdict': 'inconclusive', 'detail': 'harness error: ' + traceback.format_exc()[-3000:]})
    emit({'_done': True})
    return 3
  emit({'_done': True})
  return 0


if __name__ == '__main__':
  rc = main()
  sys.stdout.flush()
  os._exit(rc)
