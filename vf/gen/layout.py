"""Hostile source layouts for C15 (source recovery).

Every `def` gets a unique name and every lambda a unique trailing default
`_id=K`, so the runtime object identifies its oracle node in ast.parse(module)
without any line/column arithmetic. All function objects are appended to the
module-level list REG.
"""
import random

HEADER = '''\
import functools
REG = []
def deco(fn):
    return fn
def deco2(*a, **k):
    return deco
class CMX(object):
    def __enter__(self):
        return self
    def __exit__(self, *a):
        return False
'''


class Layout(object):

  def __init__(self, seed, tabs=False, features=None):
    self.rng = random.Random(seed)
    self.unit = '\t' if tabs else self.rng.choice(['    ', '  ', '    '])
    self.tabs = tabs
    self.k = 0
    self.lines = []
    self.features = features
    self.used = set()

  def nid(self):
    self.k += 1
    return self.k

  def emit(self, depth, text):
    self.lines.append(self.unit * depth + text)

  def raw(self, text):
    self.lines.append(text)

  # -- statements inside a function body
  def body_feature(self, d):
    rng = self.rng
    feats = ['plain', 'comment', 'comment_bs', 'continuation', 'triple', 'raw_triple_bs', 'bytes', 'fstring',
             'hash_in_str', 'paren_under', 'str_bs_nl', 'semicolon', 'ifblock', 'lambda1', 'lambdas_line',
             'lambda_multiline', 'nested_def', 'triple_bs_end', 'comment_bs_then_str', 'dict_multiline',
             'nested_lambda', 'same_sig_lambdas', 'call_continuation', 'fstring_indented', 'lambda_semicolon',
             'bytes_indented', 'str_bs_nl_indented', 'str_bs_nl_indented', 'exotic_linebreak_in_string']
    if self.features:
      feats = [f for f in feats if f in self.features]
    f = rng.choice(feats)
    self.used.add(f)
    n = self.nid()
    if f == 'plain':
      self.emit(d, 'x%d = %d' % (n, n))
    elif f == 'comment':
      self.emit(d, '# a comment')
      self.emit(d, 'x%d = 2  # trailing comment' % n)
      if rng.random() < 0.5:
        self.raw('# comment at column zero')
    elif f == 'comment_bs':
      self.emit(d, '# comment ending in a backslash \\')
      self.emit(d, 'x%d = 3' % n)
    elif f == 'comment_bs_then_str':
      self.emit(d, 'x%d = 4  # trailing \\' % n)
      self.emit(d, "y%d = 'kept'" % n)
    elif f == 'continuation':
      self.emit(d, 'x%d = 1 + \\' % n)
      self.emit(d + rng.choice([0, 1, 2]), '2 + \\')
      self.raw('3')
    elif f == 'call_continuation':
      self.emit(d, 'x%d = max(1, \\' % n)
      self.emit(d + 2, '2)')
    elif f == 'triple':
      self.emit(d, 's%d = """line1' % n)
      self.raw('under-indented line')
      self.emit(d, '  more  """')
    elif f == 'triple_bs_end':
      self.emit(d, "s%d = '''ends with backslash \\\\" % n)
      self.raw("next'''")
    elif f == 'raw_triple_bs':
      self.emit(d, "s%d = r'''raw \\" % n)
      self.raw("line2 \\d'''")
    elif f == 'bytes':
      self.emit(d, "s%d = b'''x" % n)
      self.raw("  y'''")
    elif f == 'fstring':
      self.emit(d, 's%d = f"""{1 + 1}' % n)
      self.raw(' z {2}"""')
    elif f == 'fstring_indented':
      self.emit(d, 's%d = f"""{x0} head' % n)
      self.emit(d + 1, 'indented {x0 + 1} line')
      self.emit(d, 'tail"""')
    elif f == 'bytes_indented':
      self.emit(d, "s%d = rb'''head \\" % n)
      self.emit(d + 2, "deep'''")
    elif f == 'lambda_semicolon':
      n2 = self.nid()
      self.emit(d, 'REG.append(lambda a, _id=%d: a + 1); REG.append(lambda b, _id=%d: b * 2)' % (n, n2))
    elif f == 'hash_in_str':
      self.emit(d, "s%d = 'not # a comment \\\\'" % n)
    elif f == 'paren_under':
      self.emit(d, 'x%d = (1 +' % n)
      self.raw('2 +')
      self.emit(d + 3, '3)')
    elif f == 'dict_multiline':
      self.emit(d, 'x%d = {' % n)
      self.raw("  'a': 1,  # c")
      self.emit(d, "'b': [2,")
      self.raw('3]}')
    elif f == 'str_bs_nl':
      self.emit(d, "s%d = 'a\\" % n)
      self.raw("b'")
    elif f == 'str_bs_nl_indented':
      # the continuation lines of a single-quoted string are part of the literal, whatever their indentation
      self.emit(d, "s%d = 'head \\" % n)
      self.emit(d + rng.choice([0, 1, 2]), "  second line \\")
      self.emit(d + rng.choice([0, 1]), "third'")
    elif f == 'exotic_linebreak_in_string':
      # characters str.splitlines() treats as line ends but the tokenizer does not, inside a multi-line literal
      ch = rng.choice(['\x0b', '\x0c', '\x1c', '\x1d', '\x1e', '\x85', '\u2028', '\u2029'])
      self.emit(d, 's%d = """head' % n + ch + 'same physical line')
      self.emit(d, 'second line, indented like the block')
      self.emit(d + 1, 'third' + ch + ch + 'line"""')
      if rng.random() < 0.5:
        self.emit(d, '# comment with' + ch + ' such a character')
        self.emit(d, 'y%d = 7' % n)
    elif f == 'semicolon':
      self.emit(d, 'x%d = 1; y%d = 2' % (n, n))
    elif f == 'ifblock':
      self.emit(d, 'if x0:')
      self.emit(d + 1, 'x%d = 5' % n)
      self.emit(d, 'else:')
      self.emit(d + 1, 'pass')
    elif f == 'lambda1':
      self.emit(d, 'REG.append(lambda a, _id=%d: a + %d)' % (n, n))
    elif f == 'lambdas_line':
      n2, n3 = self.nid(), self.nid()
      self.emit(d, 'REG.extend([lambda a, _id=%d: a, lambda b, c=1, _id=%d: b * c, lambda *a, _id=%d: a])' % (n, n2, n3))
    elif f == 'same_sig_lambdas':
      n2 = self.nid()
      self.emit(d, 'REG.extend([lambda a, _id=%d: a + 1, lambda a, _id=%d: a + 2])' % (n, n2))
    elif f == 'nested_lambda':
      n2 = self.nid()
      self.emit(d, 'REG.append(lambda a, _id=%d: REG.append(lambda b, _id=%d: a + b) or a)' % (n, n2))
      self.emit(d, 'REG[-1](1)')
    elif f == 'lambda_multiline':
      self.emit(d, 'REG.append(lambda a, _id=%d: (a +' % n)
      self.raw('  1 +  # c')
      self.emit(d + 2, '2))')
    elif f == 'nested_def':
      self.function(d)

  def signature(self, name, d):
    r = self.rng.random()
    if r < 0.5:
      self.emit(d, 'def %s():' % name)
    elif r < 0.7:
      self.emit(d, 'def %s(a=1, b=(2,' % name)
      self.raw('      3)):')
      self.used.add('multiline_sig')
    elif r < 0.85:
      self.emit(d, 'def %s(  # comment in signature' % name)
      self.emit(d + 2, 'a=1):')
      self.used.add('sig_comment')
    else:
      self.emit(d, 'def %s(a=1, \\' % name)
      self.emit(d + 1, '*, k=2):')
      self.used.add('sig_backslash')

  def function(self, d, in_class=None):
    n = self.nid()
    name = 'fn_%d' % n
    r = self.rng.random()
    if r < 0.2:
      self.emit(d, '@deco')
      self.used.add('decorator')
    elif r < 0.35:
      self.emit(d, '@deco2(1,')
      self.raw('  2)')
      self.used.add('decorator_multiline')
    elif r < 0.42:
      self.emit(d, '@deco  # comment \\')
      self.used.add('decorator_comment_bs')
    self.signature(name, d)
    if self.rng.random() < 0.25:
      self.emit(d + 1, '"""doc')
      self.raw('string under-indented"""')
      self.used.add('docstring')
    self.emit(d + 1, 'x0 = 1')
    for _ in range(self.rng.randint(1, 4)):
      if len(self.lines) > 400:
        break
      self.body_feature(d + 1)
    self.emit(d + 1, 'return x0')
    if in_class is None:
      self.emit(d, 'REG.append(%s)' % name)
      self.emit(d, '%s()' % name)
    return name

  def container(self, d):
    r = self.rng.random()
    if r < 0.08:
      # one name, two definitions (both alive), and a functools.wraps wrapper that borrows name and qualname
      self.used.add('same_name_redefined')
      name = self.function(d)
      n = self.nid()
      self.emit(d, 'def %s(q=%d):' % (name, n))
      self.emit(d + 1, 'y%d = q + %d' % (n, n))
      self.emit(d + 1, 'return y%d' % n)
      self.emit(d, 'REG.append(%s)' % name)
      self.emit(d, '@functools.wraps(%s)' % name)
      self.emit(d, 'def wr_%d(*a, **k):' % n)
      self.emit(d + 1, 'z%d = %d' % (n, n))
      self.emit(d + 1, 'return z%d' % n)
      self.emit(d, 'REG.append(wr_%d)' % n)
      self.used.add('functools_wraps')
    elif r < 0.35 or d >= 3:
      self.function(d)
    elif r < 0.5:
      n = self.nid()
      self.emit(d, 'class K_%d(object):' % n)
      self.used.add('class')
      names = [self.function(d + 1, in_class=n) for _ in range(self.rng.randint(1, 2))]
      for nm in names:
        self.emit(d, "REG.append(K_%d.__dict__['%s'])" % (n, nm))
        self.emit(d, 'K_%d().%s() if False else None' % (n, nm))
    elif r < 0.62:
      self.emit(d, 'if True:')
      self.used.add('in_if')
      self.container(d + 1)
    elif r < 0.74:
      self.emit(d, 'for _i in range(1):')
      self.used.add('in_for')
      self.container(d + 1)
    elif r < 0.86:
      self.emit(d, 'with CMX():')
      self.used.add('in_with')
      self.container(d + 1)
    else:
      self.emit(d, 'try:')
      self.used.add('in_try')
      self.container(d + 1)
      self.emit(d, 'finally:')
      self.emit(d + 1, 'pass')

  def module(self, n_containers=6):
    self.lines = []
    for _ in range(n_containers):
      self.container(0)
      if self.rng.random() < 0.3:
        n = self.nid()
        self.emit(0, 'REG.append(lambda a, _id=%d: a)  # module-level lambda' % n)
      if self.rng.random() < 0.25:
        n, n2 = self.nid(), self.nid()
        self.emit(0, 'L%d = lambda x, _id=%d: x + 1; M%d = lambda y, _id=%d: y * 2' % (n, n, n, n2))
        self.emit(0, 'REG.extend([L%d, M%d])' % (n, n))
    src = HEADER + '\n'.join(self.lines) + '\n'
    return src
