"""Independent definite-assignment check over generated programs.

Used (a) as a self-check of the generator's own tracking in the profiles whose
quantifier requires 'every read is definitely assigned', and (b) to keep
delta-debugging candidates inside that quantifier.  Conservative: it may flag
a read that is in fact always bound, never the other way round (for the
statement forms the generator emits).
"""
import ast

DEAD = None  # state after a jump


def _targets(t, out):
  if isinstance(t, ast.Name):
    out.add(t.id)
  elif isinstance(t, (ast.Tuple, ast.List)):
    for e in t.elts:
      _targets(e, out)
  elif isinstance(t, ast.Starred):
    _targets(t.value, out)


def _assigned_names(fn):
  """Names that are local to fn (assigned somewhere, not declared global/nonlocal)."""
  names, decl = set(), set()

  def visit(n):
    for ch in ast.iter_child_nodes(n):
      if isinstance(ch, (ast.FunctionDef, ast.ClassDef)):
        names.add(ch.name)
        continue
      if isinstance(ch, ast.Lambda):
        continue
      if isinstance(ch, (ast.ListComp, ast.SetComp, ast.DictComp, ast.GeneratorExp)):
        continue
      if isinstance(ch, ast.Name) and isinstance(ch.ctx, (ast.Store, ast.Del)):
        names.add(ch.id)
      if isinstance(ch, (ast.Global, ast.Nonlocal)):
        decl.update(ch.names)
      if isinstance(ch, ast.ExceptHandler) and ch.name:
        names.add(ch.name)
      if isinstance(ch, ast.alias):
        names.add((ch.asname or ch.name).split('.')[0])
      visit(ch)

  visit(fn)
  for a in ast.walk(fn.args):
    if isinstance(a, ast.arg):
      names.add(a.arg)
  return names - decl, decl


class Checker(object):

  def __init__(self, known_globals=None):
    self.problems = []
    self.known_globals = known_globals

  def reads(self, expr, state, locals_, outer_unbound, bound_extra=frozenset()):
    """Checks Name loads in expr against state."""
    if expr is None:
      return
    if isinstance(expr, ast.Lambda):
      params = {a.arg for a in ast.walk(expr.args) if isinstance(a, ast.arg)}
      self.reads(expr.body, state, locals_, outer_unbound, bound_extra | params)
      return
    if isinstance(expr, (ast.ListComp, ast.SetComp, ast.DictComp, ast.GeneratorExp)):
      extra = set(bound_extra)
      for g in expr.generators:
        self.reads(g.iter, state, locals_, outer_unbound, frozenset(extra))
        t = set()
        _targets(g.target, t)
        extra |= t
        for c in g.ifs:
          self.reads(c, state, locals_, outer_unbound, frozenset(extra))
      for part in ([expr.key, expr.value] if isinstance(expr, ast.DictComp) else [expr.elt]):
        self.reads(part, state, locals_, outer_unbound, frozenset(extra))
      return
    if isinstance(expr, ast.Name):
      if isinstance(expr.ctx, ast.Load) and expr.id not in bound_extra:
        if expr.id in locals_:
          if state is not DEAD and expr.id not in state:
            self.problems.append((expr.id, getattr(expr, 'lineno', 0)))
        elif expr.id in outer_unbound:
          self.problems.append((expr.id, getattr(expr, 'lineno', 0)))
        elif self.known_globals is not None and expr.id not in self.known_globals and expr.id not in self.enclosing_locals:
          self.problems.append((expr.id, getattr(expr, 'lineno', 0)))
      return
    for ch in ast.iter_child_nodes(expr):
      self.reads(ch, state, locals_, outer_unbound, bound_extra)

  def block(self, stmts, state, locals_, outer_unbound):
    for s in stmts:
      state = self.stmt(s, state, locals_, outer_unbound)
    return state

  @staticmethod
  def join(states):
    live = [s for s in states if s is not DEAD]
    if not live:
      return DEAD
    out = set(live[0])
    for s in live[1:]:
      out &= s
    return out

  def stmt(self, s, state, locals_, ou):
    R = lambda e: self.reads(e, state, locals_, ou)
    if isinstance(s, ast.Assign):
      R(s.value)
      for t in s.targets:
        if not isinstance(t, ast.Name):
          self._target_reads(t, state, locals_, ou)
      if state is not DEAD:
        state = set(state)
        for t in s.targets:
          _targets(t, state)
      return state
    if isinstance(s, ast.AugAssign):
      if isinstance(s.target, ast.Name):
        self.reads(ast.Name(id=s.target.id, ctx=ast.Load(), lineno=s.lineno), state, locals_, ou)
      else:
        self._target_reads(s.target, state, locals_, ou)
      R(s.value)
      return state
    if isinstance(s, ast.AnnAssign):
      R(s.value)
      if state is not DEAD and s.value is not None:
        state = set(state)
        _targets(s.target, state)
      return state
    if isinstance(s, ast.Expr):
      R(s.value)
      return state
    if isinstance(s, ast.Return):
      R(s.value)
      return DEAD
    if isinstance(s, ast.Raise):
      R(s.exc)
      R(s.cause)
      return DEAD
    if isinstance(s, (ast.Break, ast.Continue)):
      return DEAD
    if isinstance(s, ast.Delete):
      for t in s.targets:
        if isinstance(t, ast.Name):
          self.reads(ast.Name(id=t.id, ctx=ast.Load(), lineno=s.lineno), state, locals_, ou)
          if state is not DEAD:
            state = set(state)
            state.discard(t.id)
        else:
          self._target_reads(t, state, locals_, ou)
      return state
    if isinstance(s, (ast.Global, ast.Nonlocal, ast.Pass, ast.Import, ast.ImportFrom)):
      if isinstance(s, (ast.Import, ast.ImportFrom)) and state is not DEAD:
        state = set(state)
        for a in s.names:
          state.add((a.asname or a.name).split('.')[0])
      return state
    if isinstance(s, ast.If):
      R(s.test)
      a = self.block(s.body, state, locals_, ou)
      b = self.block(s.orelse, state, locals_, ou)
      return self.join([a, b])
    if isinstance(s, ast.While):
      R(s.test)
      self.block(s.body, state, locals_, ou)
      self.block(s.orelse, state, locals_, ou)
      if isinstance(s.test, ast.Constant) and s.test.value is True:
        return state  # conservative
      return state
    if isinstance(s, ast.For):
      R(s.iter)
      inner = DEAD
      if state is not DEAD:
        inner = set(state)
        _targets(s.target, inner)
      self.block(s.body, inner, locals_, ou)
      self.block(s.orelse, state, locals_, ou)
      return state
    if isinstance(s, ast.With):
      for it in s.items:
        R(it.context_expr)
        if it.optional_vars is not None and state is not DEAD:
          state = set(state)
          _targets(it.optional_vars, state)
      return self.block(s.body, state, locals_, ou)
    if isinstance(s, ast.Try):
      body = self.block(s.body, state, locals_, ou)
      ends = []
      for h in s.handlers:
        R(h.type)
        hs = state
        if h.name and state is not DEAD:
          hs = set(state)
          hs.add(h.name)
        he = self.block(h.body, hs, locals_, ou)
        if he is not DEAD and h.name:
          he = set(he)
          he.discard(h.name)
        ends.append(he)
      body = self.block(s.orelse, body, locals_, ou)
      ends.append(body)
      out = self.join(ends)
      if s.finalbody:
        fe = self.block(s.finalbody, state, locals_, ou)
        if fe is DEAD:
          return DEAD
        if out is not DEAD and state is not DEAD:
          out = (set(out) | (set(fe) - set(state))) - (set(state) - set(fe))
      return out
    if isinstance(s, ast.FunctionDef):
      for d in s.args.defaults + [k for k in s.args.kw_defaults if k is not None] + s.decorator_list:
        R(d)
      self.function(s, state, locals_, ou)
      if state is not DEAD:
        state = set(state)
        state.add(s.name)
      return state
    if isinstance(s, ast.ClassDef):
      if state is not DEAD:
        state = set(state)
        state.add(s.name)
      return state
    if isinstance(s, ast.Assert):
      R(s.test)
      return state
    return state

  def _target_reads(self, t, state, locals_, ou):
    """Reads performed by a non-name target (o.p = .., d[k] = .., tuple targets)."""
    if isinstance(t, (ast.Attribute, ast.Subscript)):
      for ch in ast.iter_child_nodes(t):
        if not isinstance(ch, (ast.Load, ast.Store, ast.Del)):
          self.reads(ch, state, locals_, ou)
    elif isinstance(t, (ast.Tuple, ast.List)):
      for e in t.elts:
        if not isinstance(e, ast.Name):
          self._target_reads(e, state, locals_, ou)

  enclosing_locals = frozenset()

  def function(self, fn, outer_state, outer_locals, outer_unbound):
    locals_, decl = _assigned_names(fn)
    saved_enclosing = self.enclosing_locals
    self.enclosing_locals = self.enclosing_locals | frozenset(locals_) | frozenset(decl)
    # enclosing locals not definitely assigned at definition time are suspicious reads
    ou = set(outer_unbound)
    if outer_locals is not None:
      st = outer_state if outer_state is not DEAD else set(outer_locals)
      ou |= (set(outer_locals) - set(st))
      ou -= locals_
    state = {a.arg for a in ast.walk(fn.args) if isinstance(a, ast.arg)}
    # nonlocal names are bound in the enclosing function (by construction)
    self.block(fn.body, state, locals_, ou)
    self.enclosing_locals = saved_enclosing


def unbound_reads(src, names=None, known_globals=None):
  """Returns [(name, line)] of reads that are not definitely assigned, in the
  module's top-level functions (optionally restricted to `names`) and the
  functions nested in them (also inside factories)."""
  tree = ast.parse(src)
  if known_globals is not None:
    import builtins
    known_globals = set(known_globals) | set(dir(builtins))
    for node in tree.body:
      if isinstance(node, (ast.FunctionDef, ast.ClassDef)):
        known_globals.add(node.name)
      elif isinstance(node, ast.Assign):
        for t in node.targets:
          for n in ast.walk(t):
            if isinstance(n, ast.Name):
              known_globals.add(n.id)
      elif isinstance(node, (ast.Import, ast.ImportFrom)):
        for a in node.names:
          known_globals.add((a.asname or a.name).split('.')[0])
  ck = Checker(known_globals)
  for node in tree.body:
    if isinstance(node, ast.FunctionDef) and (names is None or node.name in names):
      ck.function(node, set(), None, set())
  return ck.problems
