"""Bounded-exhaustive control-flow skeletons (DESIGN.md 2.1).

A skeleton is a nesting path of constructs (outer -> inner) with a conditional
jump at the leaf and a read of the carried variable `v` after every construct.
Branch decisions and loop trip counts are digits of the integer arguments a
(base 2) and b (base 3), so every decision vector of a skeleton is driven.
"""
import itertools
import random

from vf.gen import grammar

CONSTRUCTS = ['if', 'ifelse', 'while', 'for', 'tryfinally', 'tryexcept', 'tryexcept2', 'with']
JUMPS = ['none', 'break', 'continue', 'return', 'raise', 'raise2']


def valid(path, jump):
  if jump in ('break', 'continue'):
    return any(c in ('while', 'for') for c in path)
  return True


def all_skeletons(max_depth, constructs=None):
  out = []
  for d in range(1, max_depth + 1):
    for path in itertools.product(constructs or CONSTRUCTS, repeat=d):
      for j in JUMPS:
        if valid(path, j):
          out.append((path, j))
  return out


def build(path, jump, reuse_target=False, uncond=False, pure=False, ureads=()):
  """Returns (source, n_bits, n_loops)."""
  L = []
  emit = lambda ind, s: L.append('    ' * ind + s)
  log = (lambda tag, e: 'T(%r, %s)' % (tag, e)) if not pure else (lambda tag, e: 'r = r + %s' % e)
  emit(0, 'def f(a, b, c, xs, o, d):')
  emit(1, 'v = 0')
  emit(1, 'u = 0')
  if pure:
    emit(1, 'r = 0')
  n = len(path)
  nloops = 0
  has_raise = jump in ('raise', 'raise2')
  loopidx = {}
  for k, c in enumerate(path):
    if c in ('while', 'for'):
      loopidx[k] = nloops
      nloops += 1

  def body(k, ind):
    if k == n:
      # leaf
      emit(ind, 'v = v + 1')
      emit(ind, 'u = 5')
      if jump != 'none':
        if uncond:
          pre = ind
        else:
          emit(ind, 'if (a >> %d) %% 2 == 1:' % n)
          pre = ind + 1
        if jump == 'return':
          emit(pre, 'return v + 5')
        elif jump == 'raise':
          emit(pre, "raise E1('leaf')")
        elif jump == 'raise2':
          emit(pre, "raise E2('leaf', 2)")
        else:
          emit(pre, jump)
      if not (uncond and jump != 'none'):
        emit(ind, 'v = v + 2')
        emit(ind, 'u = 6')
        emit(ind, log('leafpost', 'v'))
        return False
      return True
    c = path[k]
    cond = '(a >> %d) %% 2 == 1' % k
    if c in ('while', 'for'):
      trips = '(b // %d) %% 3' % (3 ** loopidx[k])
    falls = True
    if c == 'if':
      emit(ind, 'if %s:' % cond)
      inner(k, ind + 1)
    elif c == 'ifelse':
      emit(ind, 'if %s:' % cond)
      inner(k, ind + 1)
      emit(ind, 'else:')
      emit(ind + 1, 'v = v + 3')
      emit(ind + 1, log('else%d' % k, 'v'))
    elif c == 'while':
      emit(ind, 'w%d = 0' % k)
      emit(ind, 'while w%d < %s:' % (k, trips))
      emit(ind + 1, 'w%d += 1' % k)
      inner(k, ind + 1)
    elif c == 'for':
      t = 'v' if reuse_target else 'i%d' % k
      emit(ind, 'for %s in range(%s):' % (t, trips))
      inner(k, ind + 1)
    elif c == 'tryfinally':
      emit(ind, 'try:')
      falls = not inner(k, ind + 1)
      emit(ind, 'finally:')
      if pure:
        emit(ind + 1, 'pass')
      else:
        emit(ind + 1, log('fin%d' % k, '0' if has_raise else 'v'))
    elif c == 'tryexcept':
      emit(ind, 'try:')
      inner(k, ind + 1)
      emit(ind, 'except E1:')
      emit(ind + 1, 'v = v + 7')
      emit(ind + 1, log('exc%d' % k, 'v'))
      if ('h%d' % k) in ureads:
        emit(ind + 1, log('exc%d_u' % k, 'u'))
    elif c == 'tryexcept2':
      emit(ind, 'try:')
      inner(k, ind + 1)
      emit(ind, 'except E2:')
      emit(ind + 1, 'v = v + 9')
      emit(ind + 1, log('exc2_%d' % k, 'v'))
      if ('h%d' % k) in ureads:
        emit(ind + 1, log('exc2_%d_u' % k, 'u'))
    elif c == 'infinally':
      # the nested constructs sit inside a finally block (C05 only: jumps in finally)
      emit(ind, 'try:')
      emit(ind + 1, 'v = v + 4')
      emit(ind, 'finally:')
      inner(k, ind + 1)
    elif c == 'with':
      emit(ind, "with CM('cm%d'):" % k)
      falls = not inner(k, ind + 1)
    if not falls:
      return True     # no dead code after a construct that always jumps
    emit(ind, log('after%d' % k, 'v'))
    if ('a%d' % k) in ureads:
      emit(ind, log('after%d_u' % k, 'u'))
    if ('o%d' % k) in ureads:
      emit(ind, 'u = %d' % (7 + k))
    return False

  def inner(k, ind):
    emit(ind, 'v = v + %d' % (10 ** (k + 1)))
    jumps = body(k + 1, ind)
    if not jumps:
      emit(ind, 'v = v * 2')
    return jumps

  if body(0, 1):
    return '\n'.join(L) + '\n', n + (1 if jump != 'none' and not uncond else 0), nloops
  if pure:
    emit(1, 'return (v, r, u)' if 'f' in ureads else 'return (v, r)')
  else:
    emit(1, 'return (v, u)' if 'f' in ureads else 'return (v,)')
  nbits = n + (1 if jump != 'none' and not uncond else 0)
  return '\n'.join(L) + '\n', nbits, nloops


def inputs_for(nbits, nloops, rng, cap=40):
  combos = [(a, b) for a in range(1 << nbits) for b in range(3 ** nloops)]
  if len(combos) > cap:
    # always keep the all-taken / none-taken / zero-trip / max-trip corners
    corners = [combos[0], combos[-1], ((1 << nbits) - 1, 0), (0, 3 ** nloops - 1)]
    rest = [c for c in combos if c not in corners]
    rng.shuffle(rest)
    combos = corners + rest[:cap - len(corners)]
  return ['(%d, %d, 0, [1, 2], Obj(0, 0), {"k": 0, "m": 0})' % ab for ab in combos]


def cases(seed, part, parts, tier, pure=False, constructs=None):
  """Yields (case id, module source, inputs) for this slice."""
  depth = 3
  sk = all_skeletons(depth, [c for c in constructs if c != 'raise'] if constructs and 'infinally' in constructs else None)
  if constructs is not None:
    allow_raise = 'raise' in constructs or 'infinally' in constructs
    constructs = [c for c in constructs if c != 'raise']
    sk = [(p, j) for p, j in sk if all(c in constructs for c in p) and (j not in ('raise', 'raise2') or allow_raise)]
  rng0 = random.Random('skel/%d' % seed)
  if tier == 'quick':
    # depth<=2 completely (small), depth 3 sampled
    small = [s for s in sk if len(s[0]) <= 2]
    big = [s for s in sk if len(s[0]) == 3]
    rng0.shuffle(big)
    # exceptional-flow skeletons (two handlers + raise) are always included
    exc = [s for s in big if (sum(c.startswith('tryexcept') for c in s[0]) >= 2 and s[1] in ('raise', 'raise2')) or
           ('infinally' in s[0] and any(c.startswith('try') for c in s[0][s[0].index('infinally') + 1:]) and s[1] != 'none')]
    rest = [s for s in big if s not in exc]
    sk = small + exc + rest[:200]
  else:
    d4 = [(p, j) for p in itertools.product(constructs or CONSTRUCTS, repeat=4) for j in JUMPS if valid(p, j)]
    if constructs is not None and not allow_raise:
      d4 = [s for s in d4 if s[1] not in ('raise', 'raise2')]
    rng0.shuffle(d4)
    sk = sk + d4[:1500]
  for idx, (path, jump) in enumerate(sk):
    if idx % parts != part:
      continue
    cid = 'skel/%d/%s/%s' % (seed, '-'.join(path), jump)
    rng = random.Random(cid)
    variants = [(False, False)]
    if 'for' in path:
      variants.append((True, False))
    if jump != 'none' and (tier == 'thorough' or rng.random() < 0.3 or 'infinally' in path):
      variants.append((False, True))
    if tier == 'quick':
      variants = [rng.choice(variants)] if 'infinally' not in path else variants
    for reuse, uncond in variants:
      sites = ['f'] + ['a%d' % k for k in range(len(path))] + [
          'h%d' % k for k in range(len(path)) if path[k].startswith('tryexcept')] + [
          'o%d' % k for k in range(len(path))]
      # targeted patterns: u read only in handler k and overwritten after every
      # construct nested in it (liveness along exceptional edges), plus random ones
      pats = []
      for k in range(len(path)):
        if path[k].startswith('tryexcept'):
          pats.append(tuple(sorted(['h%d' % k] + ['o%d' % j for j in range(k + 1, len(path))])))
      rnd = [tuple(sorted(x for x in sites if rng.random() < 0.4)) for _ in range(2)]
      if tier == 'quick':
        allp = [rng.choice(pats)] if pats and rng.random() < 0.6 else [rnd[0]]
      else:
        allp = pats + rnd
      for ureads in allp:
        src, nbits, nloops = build(path, jump, reuse, uncond, pure=pure, ureads=ureads)
        yield (cid + ('/reuse' if reuse else '') + ('/uncond' if uncond else '') + '/u=' + '.'.join(ureads),
               grammar.PREAMBLE + src, inputs_for(nbits, nloops, rng))
