"""'Scope soup' generator for C08: syntactically valid functions that exercise
Python's binding rules (nested defs/lambdas/classes/comprehensions, global and
nonlocal declarations, every parameter kind, annotations, decorators, default
values, imports, with/except targets, attribute and subscript targets). The
programs are compiled (symtable) but not executed."""
import random

NAMES = ['a', 'b', 'c', 'd', 'e', 'g', 'h', 'k', 'm', 'n']
GLOBALS = ['G1', 'G2', 'G3']


class Soup(object):

  def __init__(self, seed):
    self.rng = random.Random(seed)
    self.uid = 0
    self.lines = []
    self.declared_stack = []

  def emit(self, ind, s):
    self.lines.append('    ' * ind + s)

  def fresh(self, p):
    self.uid += 1
    return '%s%d' % (p, self.uid)

  def name(self):
    return self.rng.choice(NAMES)

  def rd(self):
    return self.rng.choice(NAMES + GLOBALS + ['len', 'T1'])

  def expr(self, d=0):
    r = self.rng.random()
    if d > 2 or r < 0.35:
      return self.rd()
    if r < 0.55:
      return '%s + %s' % (self.expr(d + 1), self.expr(d + 1))
    if r < 0.65:
      return '%s.attr%d' % (self.rd(), self.rng.randint(0, 2))
    if r < 0.75:
      return '%s[%s]' % (self.rd(), self.expr(d + 1))
    if r < 0.82:
      return '%s(%s, k=%s)' % (self.rd(), self.expr(d + 1), self.expr(d + 1))
    if r < 0.86:
      # f-string whose format spec contains replacement fields of its own; walrus inside call arguments
      if self.rng.random() < 0.5:
        return "f'{%s:{%s}.{%s}}|{%s!r:>{%s}}'" % (self.rd(), self.rd(), self.rd(), self.rd(), self.rd())
      return '%s((%s := %s), k=%s)' % (self.rd(), self.fresh('wl'), self.expr(d + 1), self.rd())
    if r < 0.9:
      p = self.fresh('lp')
      return '(lambda %s, %s=%s: %s + %s)' % (p, self.fresh('lq'), self.rd(), p, self.rd())
    e = self.fresh('ce')
    if self.rng.random() < 0.5:
      return '[%s + %s for %s in %s if %s > %s]' % (e, self.rd(), e, self.rd(), e, self.rd())
    e2 = self.fresh('ce')
    return '{%s: %s for %s in %s for %s in %s}' % (e, e2, e, self.rd(), e2, e)

  def params(self):
    rng = self.rng
    ps, names = [], []
    for kind in ('pos', 'pos', 'norm', 'norm', 'norm'):
      if rng.random() < 0.45:
        n = self.fresh('p')
        names.append((n, kind))
    out = []
    posn = [n for n, k in names if k == 'pos']
    normn = [n for n, k in names if k == 'norm']
    defaults_started = False
    for n in posn + normn:
      s = n
      if rng.random() < 0.3:
        s += ': ' + rng.choice(['T1', 'int', self.rd()])
      if defaults_started or rng.random() < 0.3:
        defaults_started = True
        s += ' = ' + self.rd() if ':' in s else '=' + self.rd()
      out.append(s)
      if posn and n == posn[-1]:
        out.append('/')
    allnames = posn + normn
    if rng.random() < 0.3:
      v = self.fresh('va')
      out.append('*' + v)
      allnames.append(v)
      star = True
    else:
      star = False
    kwo = []
    for _ in range(rng.randint(0, 2)):
      n = self.fresh('ko')
      kwo.append(n)
    if kwo and not star:
      out.append('*')
    for n in kwo:
      out.append(n + ('=' + self.rd() if rng.random() < 0.5 else ''))
      allnames.append(n)
    if rng.random() < 0.25:
      v = self.fresh('kw')
      out.append('**' + v)
      allnames.append(v)
    return ', '.join(out), allnames

  def function(self, ind, depth, enclosing_locals):
    rng = self.rng
    name = self.fresh('fn')
    sig, pnames = self.params()
    if rng.random() < 0.25:
      self.emit(ind, '@%s' % rng.choice(['deco', 'deco2(%s)' % self.rd()]))
    ret = ' -> ' + self.rd() if rng.random() < 0.2 else ''
    self.emit(ind, 'def %s(%s)%s:' % (name, sig, ret))
    declared = set()
    if rng.random() < 0.35:
      gs = rng.sample(GLOBALS, rng.randint(1, 2))
      self.emit(ind + 1, 'global %s' % ', '.join(gs))
      declared |= set(gs)
    nl = []
    if depth > 0 and enclosing_locals and rng.random() < 0.5:
      cands = sorted(set(enclosing_locals) - set(pnames) - declared)
      if cands:
        nl = rng.sample(cands, min(len(cands), rng.randint(1, 2)))
        self.emit(ind + 1, 'nonlocal %s' % ', '.join(nl))
        declared |= set(nl)
    self.declared_stack.append((declared, set(pnames)))
    my_locals = set(pnames)
    targets = [n for n in NAMES if n not in declared] + sorted(declared)
    for _ in range(rng.randint(2, 7)):
      my_locals |= self.stmt(ind + 1, depth, my_locals | set(enclosing_locals), targets, set(pnames))
    self.emit(ind + 1, 'return %s' % self.expr())
    self.declared_stack.pop()
    return name

  def stmt(self, ind, depth, visible_locals, targets, pnames):
    rng = self.rng
    k = rng.choice(['assign', 'assign', 'aug', 'tuple', 'attr', 'sub', 'def', 'lambda', 'class', 'comp', 'import',
                    'with', 'try', 'for', 'del', 'if', 'annassign', 'expr', 'while', 'declblock', 'compshadow'])
    t = rng.choice(targets)
    new = set()
    if k == 'assign':
      self.emit(ind, '%s = %s' % (t, self.expr()))
      new.add(t)
    elif k == 'aug':
      self.emit(ind, '%s += %s' % (t, self.expr()))
      new.add(t)
    elif k == 'tuple':
      t2 = rng.choice(targets)
      self.emit(ind, '(%s, [%s, *%s]) = %s' % (t, t2, self.fresh('st'), self.expr()))
      new |= {t, t2}
    elif k == 'attr':
      self.emit(ind, '%s.attr%d = %s' % (self.rd(), rng.randint(0, 2), self.expr()))
    elif k == 'sub':
      self.emit(ind, '%s[%s] = %s' % (self.rd(), self.expr(), self.expr()))
    elif k == 'annassign':
      self.emit(ind, '%s: %s = %s' % (t, self.rd(), self.expr()))
      new.add(t)
    elif k == 'expr':
      self.emit(ind, '%s' % self.expr())
    elif k == 'def' and depth < 3:
      n = self.function(ind, depth + 1, visible_locals)
      new.add(n)
    elif k == 'lambda':
      self.emit(ind, '%s = lambda %s, *%s, %s=%s: %s' % (t, self.fresh('lp'), self.fresh('lv'), self.fresh('lk'), self.rd(), self.expr()))
      new.add(t)
    elif k == 'class' and depth < 3:
      cn = self.fresh('Cls')
      self.emit(ind, 'class %s(%s):' % (cn, rng.choice(['object', self.rd()])))
      self.emit(ind + 1, 'cattr = %s' % self.expr())
      self.emit(ind + 1, 'def meth(self, q=%s):' % self.rd())
      self.emit(ind + 2, 'return self.x + %s + q' % self.rd())
      new.add(cn)
    elif k == 'comp':
      self.emit(ind, '%s = %s' % (t, self.expr(3 if rng.random() < 0 else 0)))
      new.add(t)
    elif k == 'import':
      if rng.random() < 0.5:
        a = self.fresh('im')
        self.emit(ind, 'import os.path as %s' % a)
        new.add(a)
      else:
        a = self.fresh('im')
        self.emit(ind, 'from os import path as %s, sep' % a)
        new |= {a, 'sep'}
    elif k == 'with':
      w1 = self.fresh('w')
      self.emit(ind, 'with %s as %s, %s as (%s, %s):' % (self.expr(), w1, self.rd(), t, self.fresh('w')))
      self.emit(ind + 1, '%s = %s' % (rng.choice(targets), w1))
      new |= {w1, t}
    elif k == 'try':
      en = self.fresh('err')
      self.emit(ind, 'try:')
      self.emit(ind + 1, '%s = %s' % (t, self.expr()))
      self.emit(ind, 'except %s as %s:' % (self.rd(), en))
      self.emit(ind + 1, '%s = %s' % (rng.choice(targets), en))
      self.emit(ind, 'finally:')
      self.emit(ind + 1, '%s' % self.expr())
      new.add(t)
    elif k == 'for':
      i1 = self.fresh('i')
      self.emit(ind, 'for %s, %s in %s:' % (i1, t, self.expr()))
      self.emit(ind + 1, '%s += %s' % (rng.choice(targets), i1))
      new |= {i1, t}
    elif k == 'while':
      self.emit(ind, 'while %s:' % self.expr())
      self.emit(ind + 1, '%s = %s' % (t, self.expr()))
      self.emit(ind + 1, 'break')
      new.add(t)
    elif k == 'declblock':
      # a global / nonlocal declaration inside the body of a compound statement
      declared, mine = self.declared_stack[-1]
      outer_params = sorted(n for n in visible_locals if n[:1] in 'pkv' and n[-1:].isdigit() and n not in mine and n not in declared)
      hdr = rng.choice(['if %s:', 'while %s:', 'for %s in %%s:' % self.fresh('i')]) % self.expr()
      self.emit(ind, hdr)
      if depth > 0 and outer_params and rng.random() < 0.5:
        n = rng.choice(outer_params)
        self.emit(ind + 1, 'nonlocal %s' % n)
      else:
        n = self.fresh('GD')
        self.emit(ind + 1, 'global %s' % n)
      declared.add(n)
      self.emit(ind + 1, '%s = %s' % (n, self.expr()))
      if rng.random() < 0.5:
        self.emit(ind, 'else:')
        self.emit(ind + 1, '%s = %s' % (t, self.expr()))
        new.add(t)
    elif k == 'compshadow':
      # the first iterable is evaluated in the enclosing scope, also when it mentions the target's name
      form = rng.choice(['[%(t)s + %(r)s for %(t)s in %(t)s]', '{%(t)s: %(r)s for %(t)s in %(t)s.attr1}',
                         'sum(%(t)s for %(t)s in %(t)s[%(r)s] if %(t)s)', '{%(t)s for %(t)s in (%(t)s, %(r)s)}'])
      t2 = rng.choice(targets)
      self.emit(ind, '%s = %s' % (t2, form % {'t': t, 'r': self.rd()}))
      new.add(t2)
    elif k == 'del':
      self.emit(ind, 'del %s' % t)
      new.add(t)
    elif k == 'if':
      self.emit(ind, 'if %s:' % self.expr())
      self.emit(ind + 1, '%s = %s' % (t, self.expr()))
      self.emit(ind, 'elif %s:' % self.expr())
      self.emit(ind + 1, 'pass')
      new.add(t)
    else:
      self.emit(ind, 'pass')
    return new - set(GLOBALS)

  def module(self):
    self.lines = ['G1 = G2 = G3 = 0', 'T1 = int', 'def deco(f):', '    return f', 'def deco2(x):', '    return deco']
    self.function(0, 0, [])
    return '\n'.join(self.lines) + '\n'
