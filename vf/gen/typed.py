"""Generator of the C19 program class: functions over int/float/bool/str/list/
tuple values with assignments, tuple unpacking, aug-assignment, if/while/for
joins, re-assignment with another type on some path, nested functions reading
and rebinding nonlocal variables, calls to typed external and local functions.

The generator tracks, per variable, the exact set of abstract types it may hold
at each program point (so that every operation it emits is type-safe on every
path) and the set of definitely assigned variables (every read is definitely
assigned).  Abstract types are those of vf.instr.tytwin.abstract.

mode 'clean' avoids the constructs of the recorded findings (a binding whose
type the inference does not know re-using a variable that had a known type;
nonlocal rebinding with another type); mode 'hostile' does not.
"""
import random
import operator

HEADER = '''
def ext_i(x):
    return len(repr(x))
def ext_f(x):
    return float(len(repr(x)))
def ext_s(x):
    return repr(x)[:4]
def ext_b(x):
    return bool(x)
def ext_l(x):
    return [len(repr(x)), 1]
def ext_t(x):
    return (len(repr(x)), 's')
def ext_u(x):
    return x
def ext_poly(x):
    return 1 if x else 'z'
'''

# declared result types of the typed externals (None = unknown to the resolver)
EXT = {'ext_i': {int}, 'ext_f': {float}, 'ext_s': {str}, 'ext_b': {bool}, 'ext_l': {list}, 'ext_t': {(int, str)},
       'ext_u': None, 'ext_poly': {int, str}}

PARAMS = ['a', 'b', 'x', 's', 'flag', 'xs', 'tp', 'n']
ARG_TYPES = {'a': {int}, 'b': {int, float}, 'x': {float}, 's': {str}, 'flag': {bool}, 'xs': {list}, 'tp': {(int, str)},
             'n': {int}}
INPUTS = [
    '(1, 2, 1.5, "q", True, [1, 2], (3, "t"), 2)',
    '(0, 2.5, -0.5, "", False, [4], (0, ""), 0)',
    '(-3, 7, 2.0, "abc", True, [0, 5, 6], (9, "zz"), 3)',
    '(5, 0.25, 0.0, "w", False, [2, 2], (-1, "k"), 1)',
]

NUM = (int, float, bool)
REP = {int: 3, float: 2.5, bool: True, str: 'ab', list: [1, 2]}


def rep(t):
  if isinstance(t, tuple):
    return tuple(rep(e) for e in t)
  return REP[t]


def abstract(v):
  if type(v) is tuple:
    return tuple(abstract(e) for e in v)
  return type(v)


BINOPS = {'+': operator.add, '-': operator.sub, '*': operator.mul, '/': operator.truediv, '//': operator.floordiv,
          '%': operator.mod}


def lit(rng, t):
  if isinstance(t, tuple):
    return '(%s%s)' % (', '.join(lit(rng, e) for e in t), ',' if len(t) == 1 else '')
  if t is int:
    return str(rng.choice([0, 1, 2, 3, 7, -1]))
  if t is float:
    return rng.choice(['0.5', '1.5', '2.0', '-0.25'])
  if t is bool:
    return rng.choice(['True', 'False'])
  if t is str:
    return rng.choice(["'a'", "'bc'", "''"])
  return rng.choice(['[1, 2]', '[3]', '[0, 1, 2]'])


TOP = frozenset(['TOP'])     # kind of a captured variable inside a nested function: anything
SCALARS = [int, float, bool, str]
ALLK = [int, float, bool, str, list, (int, str), (float, bool)]


class Fn(object):

  def __init__(self, name, depth, parent=None):
    self.name = name
    self.depth = depth
    self.parent = parent
    self.locals = set()
    self.nonlocals = set()
    self.writes = {}      # nonlocal name -> set of kinds it may write
    self.ret = set()
    self.param = None     # (name, annotated kind or None)
    self.frozen = set()   # outer variables whose kinds must not change any more (clean mode)
    self.frozen_own = set()   # own variables whose kind set is final (rebound by a nested function, clean mode)
    self.locals_fns = []  # nested Fn objects defined so far
    self.calls = []       # sibling local functions this one calls


def effective_writes(g, seen=None):
  """Kinds a call of g may leave in each variable it (or a local function it calls) rebinds through nonlocal."""
  seen = seen if seen is not None else set()
  if id(g) in seen:
    return {}
  seen.add(id(g))
  out = dict(g.writes)
  for c in g.calls:
    for v, ks in effective_writes(c, seen).items():
      out[v] = out.get(v, frozenset()) | ks
  return out


class State(object):

  def __init__(self, kinds=None, defined=None):
    self.kinds = dict(kinds or {})        # var -> frozenset of abstract types
    self.defined = set(defined or ())
    self.level = {}                       # var -> 'K' (static type known), 'A' (contains Any), 'U' (unknown)
    self.dead = False

  def fork(self):
    s = State(self.kinds, self.defined)
    s.level = dict(self.level)
    return s


def join(states, base):
  live = [s for s in states if not s.dead]
  out = State(base.kinds, base.defined)
  if not live:
    out.dead = True
    return out
  out.defined = set.intersection(*[s.defined for s in live])
  out.kinds = {}
  out.level = {}
  for s in live:
    for v, k in s.kinds.items():
      out.kinds[v] = out.kinds.get(v, frozenset()) | k
    for v, l in s.level.items():
      out.level[v] = worst(out.level.get(v, 'K'), l)
  return out


def worst(*levels):
  """Level of a tuple display / of a variable after a join. 'M' = the generator does not know which of the others."""
  if 'U' in levels:
    return 'U'
  if 'T' in levels:
    return 'T'
  if 'M' in levels:
    return 'M'
  if 'A' in levels:
    return 'A'
  return 'K'


def op_level(*levels):
  """Level of an operator application: the truthful resolver answers None unless every operand is concrete."""
  if all(l == 'K' for l in levels):
    return 'K'
  if 'U' in levels:
    return 'U'
  if 'A' in levels or 'T' in levels:
    # unknown at the fixed point, but known on the passes before the Any-typed binding of the operand has been
    # merged in: what such a pass records for the target keeps circulating in loops (recorded finding)
    return 'T'
  return 'M'


class Gen(object):

  def __init__(self, seed, mode):
    self.rng = random.Random('c19|%s' % (seed,))
    self.mode = mode
    self.lines = []
    self.uid = 0
    self.features = set()
    self.limits = []
    self.loops = 0
    self.loop_assigned = []     # per open loop: var -> kinds bound somewhere in its body

  def note_assigned(self, v, kinds):
    for d in self.loop_assigned:
      d[v] = d.get(v, frozenset()) | frozenset(kinds)

  def emit(self, ind, s):
    self.lines.append('    ' * ind + s)

  def fresh(self, p):
    self.uid += 1
    return '%s%d' % (p, self.uid)

  def chance(self, p):
    return self.rng.random() < p

  def readable(self, st):
    return [v for v in sorted(st.defined) if st.kinds.get(v) and 'TOP' not in st.kinds[v]]

  # ---- expressions: return (src, frozenset of abstract types, level)
  def expr(self, fn, st, want=None, depth=0):
    """An expression all of whose possible types are in `want` (a set of abstract types), if given."""
    for _ in range(6):
      src, kinds, level = self._expr(fn, st, want, depth)
      if level != 'T':
        return src, kinds, level
      if self.mode != 'clean':
        return src, kinds, 'U'
    t = self.rng.choice(sorted(want, key=repr) if want else ALLK)
    return lit(self.rng, t), frozenset([t]), 'K'

  def _expr(self, fn, st, want=None, depth=0):
    rng = self.rng
    ok = (lambda k: True) if want is None else (lambda k: all(t in want for t in k))
    for _ in range(12):
      r = rng.random()
      if depth > 2 or r < 0.22:
        break
      if r < 0.45:
        vs = [v for v in self.readable(st) if ok(st.kinds[v])]
        if vs:
          v = rng.choice(vs)
          return v, st.kinds[v], st.level.get(v, 'K')
        continue
      if r < 0.62:
        l, lk, ll = self.expr(fn, st, set(NUM), depth + 1)
        op = rng.choice(['+', '-', '*', '/', '//', '%'])
        if op in ('/', '//', '%', '*'):
          # bounded growth and no division by zero: literal right operand
          rsrc, rk, rl = rng.choice([('2', frozenset([int]), 'K'), ('2.5', frozenset([float]), 'K'), ('3', frozenset([int]), 'K')])
        else:
          rsrc, rk, rl = self.expr(fn, st, set(NUM), depth + 1)
        res = frozenset(abstract(BINOPS[op](rep(a), rep(b))) for a in lk for b in rk)
        if ok(res):
          return '(%s %s %s)' % (l, op, rsrc), res, op_level(ll, rl)
        continue
      if r < 0.70:
        which = rng.choice([str, list])
        res = frozenset([which])
        if not ok(res):
          continue
        l, lk, ll = self.seq_atom(fn, st, which)
        if rng.random() < 0.6:
          r2, rk, rl = self.seq_atom(fn, st, which)
          return '(%s + %s)' % (l, r2), res, op_level(ll, rl)
        return '(%s * 2)' % l, res, op_level(ll)
      if r < 0.76:
        res = frozenset([bool])
        if not ok(res):
          continue
        if rng.random() < 0.5:
          a, _, la = self.expr(fn, st, None, depth + 1)
          b, _, lb = self.expr(fn, st, None, depth + 1)
          return '(%s == %s)' % (a, b), res, op_level(la, lb)
        which = rng.choice([set(NUM), {str}])
        a, _, la = self.expr(fn, st, which, depth + 1)
        b, _, lb = self.expr(fn, st, which, depth + 1)
        return '(%s %s %s)' % (a, rng.choice(['<', '<=', '>', '!=']), b), res, op_level(la, lb)
      if r < 0.80:
        if rng.random() < 0.5:
          l, lk, ll = self.expr(fn, st, set(NUM), depth + 1)
          res = frozenset(abstract(-rep(t)) for t in lk)
          src = '(-%s)' % l
        else:
          l, lk, ll = self.expr(fn, st, None, depth + 1)
          res = frozenset([bool])
          src = '(not %s)' % l
        if ok(res):
          return src, res, op_level(ll)
        continue
      if r < 0.86:
        if self.loops > 0:
          # inside loops the elements do not read variables: with the product types of the inference a display that
          # (through any chain of bindings) contains its own target has no finite fixed point
          t1, t2 = rng.choice(SCALARS), rng.choice(SCALARS)
          if ok(frozenset([(t1, t2)])):
            return '(%s, %s)' % (lit(rng, t1), lit(rng, t2)), frozenset([(t1, t2)]), 'K'
          continue
        e1, k1, l1 = self.expr(fn, st, set(SCALARS), depth + 1)
        e2, k2, l2 = self.expr(fn, st, set(SCALARS), depth + 1)
        res = frozenset((a, b) for a in k1 for b in k2)
        if ok(res):
          return '(%s, %s)' % (e1, e2), res, worst(l1, l2)
        continue
      if r < 0.90:
        vs = [v for v in self.readable(st) if all(isinstance(t, tuple) and len(t) >= 2 for t in st.kinds[v])]
        if vs and rng.random() < 0.7:
          v = rng.choice(vs)
          i = rng.choice([0, 1])
          res = frozenset(t[i] for t in st.kinds[v])
          src = '%s[%d]' % (v, i)
          lv = {'K': 'K', 'M': 'M', 'A': 'T'}.get(st.level.get(v, 'K'), 'U')
        else:
          vs = [v for v in self.readable(st) if st.kinds[v] == frozenset([list])]
          if not vs:
            continue
          src, res, lv = '%s[0]' % rng.choice(vs), frozenset([int]), 'U'
        if ok(res):
          self.features.add('subscript')
          return src, res, lv
        continue
      if r < 0.97:
        name = rng.choice(sorted(EXT))
        arg, ak, _ = self.expr(fn, st, None, depth + 1)
        res = ak if name == 'ext_u' else frozenset(EXT[name])
        if ok(res):
          self.features.add('ext_call')
          return '%s(%s)' % (name, arg), res, ('U' if name == 'ext_u' else 'K')
        continue
      c, _, _ = self.expr(fn, st, {bool}, depth + 1)
      e1, k1, _ = self.expr(fn, st, want, depth + 1)
      e2, k2, _ = self.expr(fn, st, want, depth + 1)
      self.features.add('ifexp')
      return '(%s if %s else %s)' % (e1, c, e2), k1 | k2, 'U'
    t = rng.choice(sorted(want, key=repr) if want else ALLK)
    return lit(rng, t), frozenset([t]), 'K'

  def seq_atom(self, fn, st, which):
    """A str / list operand of bounded size: a literal, a parameter, or (outside loops) a variable."""
    rng = self.rng
    want = frozenset([which])
    vs = [v for v in self.readable(st) if st.kinds[v] == want and (self.loops == 0 or v in PARAMS)]
    if vs and rng.random() < 0.6:
      v = rng.choice(vs)
      return v, want, st.level.get(v, 'K')
    return lit(rng, which), want, 'K'

  # ---- statements
  def may_assign(self, fn, st, v, kinds, level):
    """May `v` be bound to a value of `kinds`, by a binding whose static type has `level`, here?"""
    lim = self.limits[-1].get(v) if self.limits else None
    if lim is not None and not kinds <= lim:
      return False
    if v in fn.frozen_own or v in fn.frozen:
      if not kinds <= st.kinds.get(v, frozenset()):
        return False
    if self.mode == 'clean':
      # a binding of unknown static type never re-uses a variable that may hold a known type, and vice versa; where
      # the generator cannot tell, the target is a variable that is bound nowhere else
      if level == 'M':
        return False
      return v.startswith('u') == (level == 'U')
    return True

  def targets(self, fn):
    return ['v0', 'v1', 'v2', 'v3', 'v4', 'u0', 'u1'] if fn.depth == 0 else ['w0', 'w1', 'u2'] + sorted(fn.nonlocals)

  def bind(self, fn, st, v, kinds, level):
    st.kinds[v] = frozenset(kinds)
    st.defined.add(v)
    st.level[v] = level
    self.note_assigned(v, kinds)
    if fn.depth > 0 and v in fn.nonlocals:
      fn.writes[v] = fn.writes.get(v, frozenset()) | frozenset(kinds)

  def s_assign(self, fn, st, ind):
    rng = self.rng
    for _ in range(8):
      v = rng.choice(self.targets(fn))
      src, kinds, level = self.expr(fn, st)
      if self.mode == 'clean' and level == 'M':
        v = self.fresh('z')
        self.emit(ind, '%s = %s' % (v, src))
        self.bind(fn, st, v, kinds, level)
        return
      if self.may_assign(fn, st, v, kinds, level):
        self.emit(ind, '%s = %s' % (v, src))
        self.bind(fn, st, v, kinds, level)
        return
    self.emit(ind, 'pass')

  def s_unpack(self, fn, st, ind):
    rng = self.rng
    for _ in range(8):
      tg = self.targets(fn)
      v, w = rng.sample(tg, 2)
      r = rng.random()
      if r < 0.4:
        e1, k1, l1 = self.expr(fn, st, set(SCALARS) | {list}, 1)
        e2, k2, l2 = self.expr(fn, st, set(SCALARS) | {list}, 1)
        src = '(%s, %s)' % (e1, e2)
        lv = lw = worst(l1, l2)
        if lv == 'A':
          lv, lw = ('A' if l1 == 'A' else 'K'), ('A' if l2 == 'A' else 'K')
      elif r < 0.6 and 'tp' in st.defined and fn.depth == 0:
        src, k1, k2, lv, lw = 'tp', frozenset([int]), frozenset([str]), 'K', 'K'
      elif r < 0.8:
        src, k1, k2, lv, lw = 'ext_t(%s)' % self.expr(fn, st, None, 1)[0], frozenset([int]), frozenset([str]), 'K', 'K'
      else:
        vs = [x for x in self.readable(st) if all(isinstance(t, tuple) and len(t) == 2 for t in st.kinds[x])]
        if not vs:
          continue
        src = rng.choice(vs)
        k1 = frozenset(t[0] for t in st.kinds[src])
        k2 = frozenset(t[1] for t in st.kinds[src])
        sl = st.level.get(src, 'K')
        if sl in ('A', 'M') and self.mode == 'clean':
          continue      # element levels of such a tuple are not tracked
        lv = lw = sl
      if self.may_assign(fn, st, v, k1, lv) and self.may_assign(fn, st, w, k2, lw):
        self.emit(ind, '%s, %s = %s' % (v, w, src))
        self.bind(fn, st, v, k1, lv)
        self.bind(fn, st, w, k2, lw)
        self.features.add('unpack')
        return
    self.emit(ind, 'pass')

  def s_chain(self, fn, st, ind):
    """Chained assignment: several targets, one of them an unpacking pattern."""
    rng = self.rng
    for _ in range(8):
      tg = self.targets(fn)
      v, w, z = rng.sample(tg, 3)
      r = rng.random()
      if r < 0.45:
        t1, t2 = rng.choice(SCALARS), rng.choice(SCALARS)
        src, k1, k2, lv = '(%s, %s)' % (lit(rng, t1), lit(rng, t2)), frozenset([t1]), frozenset([t2]), 'K'
      elif r < 0.7 and 'tp' in st.defined and fn.depth == 0:
        src, k1, k2, lv = 'tp', frozenset([int]), frozenset([str]), 'K'
      else:
        src, k1, k2, lv = 'ext_t(%s)' % self.expr(fn, st, None, 1)[0], frozenset([int]), frozenset([str]), 'K'
      kz = frozenset((a, b) for a in k1 for b in k2)
      if not (self.may_assign(fn, st, v, k1, lv) and self.may_assign(fn, st, w, k2, lv) and self.may_assign(fn, st, z, kz, lv)):
        continue
      form = rng.choice(['%(v)s, %(w)s = %(z)s = %(src)s', '%(z)s = %(v)s, %(w)s = %(src)s', '%(z)s = (%(v)s, %(w)s) = %(src)s'])
      self.emit(ind, form % {'v': v, 'w': w, 'z': z, 'src': src})
      self.bind(fn, st, v, k1, lv)
      self.bind(fn, st, w, k2, lv)
      self.bind(fn, st, z, kz, lv)
      self.features.add('chained_assignment')
      return
    self.emit(ind, 'pass')

  def s_aug(self, fn, st, ind):
    rng = self.rng
    for _ in range(8):
      cands = [v for v in self.targets(fn) if v in st.defined and st.kinds.get(v)]
      if not cands:
        break
      v = rng.choice(cands)
      k = st.kinds[v]
      if all(t in NUM for t in k):
        op = rng.choice(['+', '-', '*'])
        if op == '*':
          src, rk = rng.choice([('2', frozenset([int])), ('1.5', frozenset([float]))])
        else:
          src, rk, _ = self.expr(fn, st, set(NUM), 1)
        res = frozenset(abstract(BINOPS[op](rep(a), rep(b))) for a in k for b in rk)
      elif k == frozenset([str]):     # not lists: += mutates in place, also through aliases of a list being iterated
        op = '+'
        src, rk = lit(rng, next(iter(k))), k
        res = k
      else:
        continue
      lv = st.level.get(v, 'K')
      # aug-assignment is a binding the inference does not type: the variable keeps its recorded type. In clean mode
      # the type must therefore not change (variables of unknown static type may change freely).
      if self.mode == 'clean' and not (v.startswith('u') and lv == 'U') and not (len(k) == 1 and res == k):
        continue
      lim = self.limits[-1].get(v) if self.limits else None
      if lim is not None and not res <= lim:
        continue
      if (v in fn.frozen_own or v in fn.frozen) and not res <= k:
        continue
      self.emit(ind, '%s %s= %s' % (v, op, src))
      self.bind(fn, st, v, (res | k) if (self.mode == 'clean' and lv != 'U') else res, lv)
      self.features.add('augassign')
      return
    self.emit(ind, 'pass')

  def s_if(self, fn, st, ind, depth):
    c, _, _ = self.expr(fn, st, {bool}, 1)
    self.emit(ind, 'if %s:' % c)
    a = st.fork()
    self.block(fn, a, ind + 1, depth + 1)
    b = st.fork()
    if self.chance(0.7):
      self.emit(ind, 'else:')
      self.block(fn, b, ind + 1, depth + 1)
    j = join([a, b], st)
    st.kinds, st.defined, st.level, st.dead = j.kinds, j.defined, j.level, j.dead
    self.features.add('if')

  def loop_head(self, fn, st):
    """Chooses the kinds each already defined variable may have anywhere in the loop (the loop's fixed point is
    within these limits by construction). Returns (head state, limits)."""
    rng = self.rng
    head = st.fork()
    limits = {}
    for v in sorted(st.defined):
      k = st.kinds.get(v)
      if not k:
        continue
      lim = set(k)
      outer = self.limits[-1].get(v) if self.limits else None
      if v[0] in 'vw' and rng.random() < 0.4 and v not in fn.frozen_own and v not in fn.frozen:
        extra = rng.choice(ALLK)
        if outer is None or extra in outer:
          lim.add(extra)
      for g in fn.locals_fns:
        for t in effective_writes(g).get(v, ()):
          if outer is None or t in outer:
            lim.add(t)
      limits[v] = frozenset(lim)
      head.kinds[v] = frozenset(lim)
    if self.limits:
      for v, l in self.limits[-1].items():
        limits.setdefault(v, l)
    return head, limits

  def force_widen(self, fn, st, limits, pre, ind):
    """Emits (conditionally) assignments that realise the widened kinds, so that the limits are not vacuous."""
    for v in sorted(limits):
      if v not in pre.kinds or v not in pre.defined:
        continue
      for t in sorted(limits[v] - pre.kinds[v], key=repr):
        if self.chance(0.8) and self.may_assign(fn, st, v, frozenset([t]), 'K'):
          c, _, _ = self.expr(fn, st, {bool}, 2)
          self.emit(ind, 'if %s:' % c)
          self.emit(ind + 1, '%s = %s' % (v, lit(self.rng, t)))
          st.kinds[v] = st.kinds.get(v, frozenset()) | frozenset([t])
          self.note_assigned(v, [t])
          if fn.depth > 0 and v in fn.nonlocals:
            fn.writes[v] = fn.writes.get(v, frozenset()) | frozenset([t])
          self.features.add('type_change_in_loop')

  def after_loop(self, st, body, limits):
    assigned = self.loop_assigned.pop()
    for v in limits:
      if v in st.kinds and v in st.defined:
        st.kinds[v] = st.kinds[v] | assigned.get(v, frozenset())
        st.level[v] = worst(st.level.get(v, 'K'), body.level.get(v, 'K'))

  def s_while(self, fn, st, ind, depth):
    cn = self.fresh('c')
    self.emit(ind, '%s = 0' % cn)
    head, limits = self.loop_head(fn, st)
    bound = self.rng.choice(['2', '3', 'n']) if fn.depth == 0 else self.rng.choice(['2', '3'])
    self.emit(ind, 'while %s < %s:' % (cn, bound))
    self.emit(ind + 1, '%s += 1' % cn)
    body = head.fork()
    self.limits.append(limits)
    self.loop_assigned.append({})
    self.loops += 1
    self.block(fn, body, ind + 1, depth + 1, n=self.rng.randint(1, 4))
    self.force_widen(fn, body, limits, st, ind + 1)
    self.loops -= 1
    self.limits.pop()
    self.after_loop(st, body, limits)
    self.features.add('while')

  def s_for(self, fn, st, ind, depth):
    rng = self.rng
    r = rng.random()
    if r < 0.35:
      it, ek = rng.choice(['[1, 2]', '[3]', '[]']), frozenset([int])
    elif r < 0.55:
      it = rng.choice(["(1, 'a')", "(0.5, True, 2)", "('x',)"])
      ek = frozenset(abstract(e) for e in eval(it))  # pylint:disable=eval-used
    elif r < 0.75 and fn.depth == 0 and st.kinds.get('xs') == frozenset([list]):
      it, ek = 'xs', frozenset([int])
    else:
      it, ek = 'range(%s)' % rng.choice(['2', '3', 'n' if fn.depth == 0 else '1']), frozenset([int])
    # the loop target is a binding the inference does not type
    tv = self.fresh('i')
    if self.mode != 'clean' and rng.random() < 0.5:
      cand = rng.choice(self.targets(fn))
      if self.may_assign(fn, st, cand, ek, 'U'):
        tv = cand
    elif self.mode == 'clean' and rng.random() < 0.3:
      cand = rng.choice([t for t in self.targets(fn) if t.startswith('u')])
      if self.may_assign(fn, st, cand, ek, 'U'):
        tv = cand
    head, limits = self.loop_head(fn, st)
    if tv in limits:
      limits[tv] = limits[tv] | ek
      head.kinds[tv] = limits[tv]
    self.emit(ind, 'for %s in %s:' % (tv, it))
    body = head.fork()
    lv = 'U' if (tv.startswith('i') or tv.startswith('u') or self.mode == 'clean') else body.level.get(tv, 'U') if tv in body.defined else 'U'
    self.loop_assigned.append({})
    self.bind(fn, body, tv, ek, lv)
    self.limits.append(limits)
    self.loops += 1
    self.block(fn, body, ind + 1, depth + 1, n=rng.randint(1, 4))
    self.force_widen(fn, body, limits, st, ind + 1)
    self.loops -= 1
    self.limits.pop()
    self.after_loop(st, body, limits)
    self.features.add('for')
    if not tv.startswith('i'):
      self.features.add('for_target_reuses_variable')

  def s_def(self, fn, st, ind):
    """A nested function (only at the top level of the enclosing function's body)."""
    rng = self.rng
    g = Fn(self.fresh('g'), fn.depth + 1, fn)
    annotated = rng.random() < 0.5
    self.emit(ind, 'def %s(p%s):' % (g.name, ': int' if annotated else ''))
    outer = [v for v in sorted(st.defined) if st.kinds.get(v) and 'TOP' not in st.kinds[v]]
    nl = []
    cands = [v for v in outer if v[0] == 'v' and v not in fn.frozen]
    if self.mode == 'clean':
      # rebinding keeps the one type the variable has, now and from here on, in both functions
      cands = [v for v in cands if len(st.kinds[v]) == 1]
    if cands and rng.random() < 0.7:
      nl = rng.sample(cands, min(len(cands), rng.randint(1, 2)))
      self.emit(ind + 1, 'nonlocal %s' % ', '.join(nl))
      g.nonlocals = set(nl)
    gst = State()
    gst.defined = set(outer) | {'p'}
    for v in outer:
      gst.kinds[v] = TOP      # kind at call time not fixed: only polymorphic use
      gst.level[v] = 'M'      # known to the inference iff a closure type was recorded
    gst.kinds['p'] = frozenset([int])
    gst.level['p'] = 'K' if annotated else 'U'
    saved_limits, self.limits = self.limits, []
    saved_loops, self.loops = self.loops, 0
    saved_la, self.loop_assigned = self.loop_assigned, []
    g.frozen = set(fn.frozen) | (set(outer) - set(nl))
    if self.mode == 'clean':
      # rebinding through nonlocal keeps the kinds the variable has now, and so does the enclosing function from here on
      for v in nl:
        gst.kinds[v] = st.kinds[v]
        gst.level[v] = 'M'
        fn.frozen_own.add(v)
        g.frozen.add(v)
    for _ in range(rng.randint(1, 4)):
      if outer and rng.random() < 0.6:
        v = rng.choice(outer)
        form, kinds, level = rng.choice([('(%s, 1)', None, 'M'), ('(%s == %s)', frozenset([bool]), 'M'),
                                         ('ext_s(%s)', frozenset([str]), 'K'), ('ext_u(%s)', None, 'U'),
                                         ('ext_l(%s)', frozenset([list]), 'K'), ('(not %s)', frozenset([bool]), 'M')])
        src = form % ((v, v) if form.count('%s') == 2 else (v,))
        if level == 'M':
          t = self.fresh('z') if self.mode == 'clean' else rng.choice(['w0', 'w1', 'u2'])
        elif level == 'U':
          t = 'u2'
        else:
          t = rng.choice(['w0', 'w1'])
        self.emit(ind + 1, '%s = %s' % (t, src))
        self.bind(g, gst, t, kinds if kinds is not None else TOP, level)
        self.features.add('closure_read')
      else:
        self.stmt(g, gst, ind + 1, 1)
    if self.mode != 'clean' and fn.locals_fns and rng.random() < 0.4:
      # calls a local function defined earlier: its nonlocal rebindings happen inside this call as well
      prev = rng.choice(fn.locals_fns)
      self.emit(ind + 1, 'u2 = %s(1)' % prev.name)
      gst.defined.add('u2')
      gst.kinds['u2'] = TOP
      gst.level['u2'] = 'A'
      g.calls.append(prev)
      for v, ks in effective_writes(prev).items():
        if v in gst.kinds and 'TOP' not in gst.kinds[v]:
          gst.kinds[v] = gst.kinds[v] | ks
      self.features.add('local_function_calls_local_function')
    if nl and self.mode != 'clean':
      for v in nl:
        if rng.random() < 0.8:
          t = rng.choice(ALLK)
          if rng.random() < 0.5:
            self.emit(ind + 1, 'if p > 1:')
            self.emit(ind + 2, '%s = %s' % (v, lit(rng, t)))
            gst.kinds[v] = gst.kinds.get(v, TOP) | frozenset([t])
          else:
            self.emit(ind + 1, '%s = %s' % (v, lit(rng, t)))
            gst.kinds[v] = frozenset([t])
          g.writes[v] = g.writes.get(v, frozenset()) | frozenset([t])
          self.features.add('nonlocal_rebinding_other_type')
    elif nl:
      for v in nl:
        k = st.kinds[v]
        if len(k) == 1 and st.level.get(v, 'K') in ('K', 'A') and rng.random() < 0.8:
          self.emit(ind + 1, '%s = %s' % (v, lit(rng, next(iter(k)))))
          self.features.add('nonlocal_rebinding_same_type')
    rsrc, rk, _ = self.expr(g, gst, None, 1)
    self.emit(ind + 1, 'return %s' % rsrc)
    g.ret = rk
    self.limits = saved_limits
    self.loops = saved_loops
    self.loop_assigned = saved_la
    fn.locals_fns.append(g)
    st.defined.add(g.name)
    st.kinds[g.name] = TOP
    self.features.add('nested_def')

  def s_call_local(self, fn, st, ind):
    rng = self.rng
    if not fn.locals_fns:
      return self.s_assign(fn, st, ind)
    g = rng.choice(fn.locals_fns)
    arg, _, _ = self.expr(fn, st, {int}, 1)
    eff = effective_writes(g)
    for v, ks in eff.items():
      lim = self.limits[-1].get(v) if self.limits else None
      if lim is not None and not ks <= lim:
        return self.s_assign(fn, st, ind)
    # the result of a local function without return annotation is Any for the inference
    tgt = None
    if rng.random() < 0.7:
      cand = rng.choice(self.targets(fn))
      if self.may_assign(fn, st, cand, g.ret, 'A') and cand not in eff:
        tgt = cand
    if tgt is None:
      self.emit(ind, '%s(%s)' % (g.name, arg))
    else:
      self.emit(ind, '%s = %s(%s)' % (tgt, g.name, arg))
      self.bind(fn, st, tgt, g.ret, 'A')
    for v, ks in eff.items():
      if v in st.kinds:
        st.kinds[v] = st.kinds[v] | ks
        self.note_assigned(v, ks)
    self.features.add('local_call')

  def stmt(self, fn, st, ind, depth):
    rng = self.rng
    opts = [('assign', 5), ('unpack', 2), ('aug', 2), ('chain', 1)]
    if depth < 3:
      opts += [('if', 3), ('while', 1 if self.loops < 2 else 0), ('for', 2 if self.loops < 2 else 0)]
    if fn.depth == 0 and fn.locals_fns:
      opts.append(('call', 4))
    if self.loops > 0 and rng.random() < 0.08:
      c, _, _ = self.expr(fn, st, {bool}, 2)
      self.emit(ind, 'if %s:' % c)
      self.emit(ind + 1, 'break')
      return
    total = sum(w for _, w in opts)
    x = rng.random() * total
    for k, w in opts:
      x -= w
      if x <= 0:
        break
    if k in ('assign', 'unpack', 'aug', 'call', 'chain'):
      getattr(self, {'call': 's_call_local'}.get(k, 's_' + k))(fn, st, ind)
    else:
      getattr(self, 's_' + k)(fn, st, ind, depth)

  def block(self, fn, st, ind, depth, n=None):
    n = n if n is not None else self.rng.randint(1, 3)
    for _ in range(n):
      self.stmt(fn, st, ind, depth)

  def module(self):
    rng = self.rng
    self.lines = [HEADER]
    fn = Fn('f', 0)
    self.emit(0, 'def f(%s):' % ', '.join(PARAMS))
    st = State()
    for p in PARAMS:
      st.defined.add(p)
      st.kinds[p] = frozenset(ARG_TYPES[p])
      st.level[p] = 'K'
    for v in ['v0', 'v1', 'v2']:
      src, kinds, level = self.expr(fn, st, set(ALLK), 1)
      if level != 'U':
        self.emit(1, '%s = %s' % (v, src))
        self.bind(fn, st, v, kinds, level)
    nd = rng.choice([0, 1, 1, 2])
    for i in range(rng.randint(4, 9)):
      if nd and rng.random() < 0.4:
        self.s_def(fn, st, 1)
        nd -= 1
      else:
        self.stmt(fn, st, 1, 0)
    outs = [v for v in sorted(st.defined) if v not in PARAMS and st.kinds.get(v) and 'TOP' not in st.kinds[v]]
    self.emit(1, 'return (%s,)' % ', '.join(outs[:6]) if outs else 'return a')
    return '\n'.join(self.lines) + '\n'


def gen(seed, mode):
  g = Gen(seed, mode)
  src = g.module()
  return src, sorted(g.features)
