"""Seeded grammar-based generator of module source text.

A generated module = fixed PREAMBLE (observation vocabulary) + K generated
functions g0..g{K-1} (g_i may call g_j, j < i) + the function under test.
Everything is derived from random.Random(seed-string); the generator tracks
definite assignment, loop termination and implicit-exception freedom itself
(see DESIGN.md 2.1), so each profile stays inside its property's quantifier.
"""
import ast
import collections
import random

PREAMBLE = '''\
import functools
LOG = []
def _r(v):
    if callable(v) and not isinstance(v, type):
        return '<callable>'
    try:
        return repr(v)
    except Exception as e:
        return '<unrepr %s>' % type(e).__name__
class _Overflow(BaseException):
    pass
def T(tag, v=None):
    if len(LOG) > 20000:
        raise _Overflow()
    LOG.append(('T', tag, _r(v)))
    return v
class CM(object):
    def __init__(self, tag):
        self.tag = tag
        self.n = 0
    def __enter__(self):
        LOG.append(('enter', self.tag))
        self.n += 1
        return self
    def __exit__(self, et, ev, tb):
        LOG.append(('exit', self.tag, ('NameError' if issubclass(et, NameError) else et.__name__) if et else None))
        return False
class Obj(object):
    def __init__(self, p=0, q=0):
        self.p = p
        self.q = q
    def __eq__(self, other):
        return isinstance(other, Obj) and self.__dict__ == other.__dict__
    def __ne__(self, other):
        return not self.__eq__(other)
    __hash__ = None
    def __repr__(self):
        return 'Obj(%s)' % ', '.join('%s=%r' % kv for kv in sorted(self.__dict__.items()))
    def meth(self, x):
        LOG.append(('meth', _r(x)))
        if x > self.p:
            self.q = self.q + 1
            return x - self.p
        return self.p - x
class Falsy(object):
    """An object whose truth value is False (an empty container), with ordinary methods."""
    def __init__(self):
        self.n = 0
    def __len__(self):
        return 0
    def bump(self, x, k=1):
        LOG.append(('bump', _r(x), _r(k)))
        self.n = self.n + 1
        if x > 2:
            return x - k
        return x + k
FZ = Falsy()
class LI(object):
    def __init__(self, tag, seq):
        self.tag = tag
        self.it = iter(list(seq))
    def __iter__(self):
        return self
    def __next__(self):
        try:
            v = next(self.it)
        except StopIteration:
            LOG.append(('next', self.tag, 'stop'))
            raise
        LOG.append(('next', self.tag, _r(v)))
        return v
class E1(Exception):
    pass
class E2(Exception):
    def __init__(self, a, b=0):
        Exception.__init__(self, a)
        self.b = b
class E3(E1):
    pass
class B1(BaseException):
    pass
def H(x):
    LOG.append(('H', _r(x)))
    r = 0
    for k in range(3):
        if k > x:
            break
        r += k
    return r + x
def H2(x, y=1):
    LOG.append(('H2', _r(x), _r(y)))
    if x > y:
        return x - y
    return y
def R(n):
    if n <= 0:
        return 0
    return n + R(n - 1)
def RAISER(x):
    LOG.append(('RAISER', _r(x)))
    if x % 2 == 0:
        raise E1('even')
    return x
P1 = functools.partial(H2, 3)
P2 = functools.partial(H2, y=2)
G1 = 1
G2 = 10
zG3 = 100      # a global whose name sorts after the local variables
NL = [0, 0, 0]  # a module-level list for negative-index stores
'''

PARAMS = ['a', 'b', 'c', 'xs', 'o', 'd']
SIG = 'a, b, c, xs, o, d'

PLAIN_VARS = ['v0', 'v1', 'v2', 'v3', 'v4', 'v5']
ADV_ROOTS = ['do_return', 'retval_', 'break_', 'continue_', 'fscope', 'lscope',
             'get_state', 'set_state', 'if_body', 'else_body', 'loop_body',
             'loop_test', 'extra_test', 'itr', 'vars_', 'cmp_l', 'cmp_r']
LOCAL_POOLS = {1: ['m0', 'm1', 'm2'], 2: ['n0', 'n1', 'n2']}


UNUSUAL = [
    "T({t!r}, f\"{{a!r:>{{b + 3}}}}|{{f'{{c}}'}}|{{{{}}}}\")",
    "T({t!r}, {{(1, 2): a}}[1, 2])",
    "T({t!r}, [*xs, *(a, b)])",
    "T({t!r}, (n{n} := a + 1) + n{n})",
    "T({t!r}, (lambda q=(lambda: b): q())())",
    "u{n}, *r{n} = [a, b, c]\nT({t!r}, (u{n}, r{n}))",
    "T({t!r}, -1 ** 2 + (-a) ** 2 - -b)",
    "T({t!r}, {{**d, 'k2': a}})",
    "T({t!r}, (xs[1:2], xs[::2], xs[a:b:2], xs[:]))",
    "T({t!r}, a if b else c if a else b)",
    "T({t!r}, a < b <= c != a)",
    "T({t!r}, not -a or ~b and +c)",
    "T({t!r}, ((a, (b, [c, {{a}}])), {{b: c}}))",
    "T({t!r}, 1e3 + 0x10 + 0b11 + 1_000 + 2j.real)",
    "T({t!r}, 'x' 'y' + \"q\\n\" + r'\\d' + b'z'.decode())",
    "T({t!r}, [i{n} * j{n} for i{n} in range(2) for j{n} in range(3) if i{n} != j{n}])",
    "T({t!r}, (lambda *aa, k=1, **kw: (aa, k, kw))(a, *xs, k=b, **{{'z': c}}))",
    "for h{n}, *t{n} in [(1, 2, 3), (a, b)]:\n    T({t!r}, (h{n}, t{n}))",
    "T({t!r}, xs[0] if xs else None)",
    "assert a < 10 ** 6, 'big'",
    "with CM({t!r}) as (cm{n}):\n    T({t!r}, cm{n}.n)",
    "T({t!r}, d.get('k', a) + len(d.keys()))",
    "T({t!r}, [x{n} for x{n} in xs][-1:] + xs[-2:])",
    "T({t!r}, -(a + b) * -(-c))",
    "T({t!r}, 3 .real + (4).imag + (a).__add__(b))",
    "T({t!r}, (a, b)[a > b] if (b, c)[0] else {{1, 2}} - {{2}})",
    "T({t!r}, a if a else b or c and not a)",
    "T({t!r}, {{k{n}: v{n}_ for k{n}, v{n}_ in d.items() if k{n} != 'zz'}})",
    "T({t!r}, (lambda: (lambda: a + b)())())",
    "T({t!r}, ~a & b | c ^ 3 << 1 >> 1)",
    "T({t!r}, 2 ** -1 + 7 // 2 + 7 % -3 + a / 4)",
    "T({t!r}, 'na\u00efve \u2603 ' + str(a) + 'gr\u00f6\u00dfer')",
    "gr\u00f6\u00dfe{n} = a + 1\nT({t!r}, gr\u00f6\u00dfe{n})",
    "T({t!r}, len('\U0001f600\u4e2d\u6587') + a)",
]


class Profile(object):
  """Switches for the grammar. Defaults = the C01 class."""
  name = 'c01'
  max_depth = 4
  max_stmts = 26
  n_helpers = 2           # generated callee functions g0..
  unsafe_reads = 0.03     # probability that a read may be of a possibly-unbound variable
  implicit_exc = 0.04     # probability of an implicitly raising operation (outside try)
  use_try = True
  use_with = True
  use_raise = True
  use_nested_def = True
  use_lambda = True
  use_comprehension = True
  use_global = True
  use_nonlocal = True
  use_calls = True
  use_T = True            # side-effecting tracer calls
  use_attrs = True
  use_del = True
  use_while = True
  use_for = True
  use_jumps = True
  use_chain_side_effect = True    # a < T() < c  (fixed finding chained-comparison-middle-operand-evaluated-twice)
  use_loop_else = False
  use_boolops = True
  use_ifexp = True
  use_list_mutation = True
  use_factory = True      # function under test is a closure made by a factory
  reuse_loop_targets = True
  adversarial_idents = False
  pure = False            # C02: no side effects other than o.p / d['k'] state
  lambda_later = True     # lambdas may be called after their defining statement
  nested_writes = True    # nested defs may declare nonlocal and write
  use_except_as = True
  use_directives = False
  dead_code = 0.02
  use_augassign = True
  use_tuple_assign = True
  use_unusual = False
  use_docstrings = False    # multi-line docstrings with under-indented continuation lines
  use_base_exc = True       # raise / catch a BaseException that is not an Exception
  comp_shadow = False       # C08: comprehensions whose first iterable mentions the target's own name
  hostile_finally = False   # C05 only: try statements and jumps inside finally blocks

  def __init__(self, **kw):
    for k, v in kw.items():
      if not hasattr(type(self), k):
        raise AttributeError(k)
      setattr(self, k, v)


def profile(name):
  if name == 'c01':
    return Profile()
  if name == 'c01safe':
    return Profile(name='c01safe', unsafe_reads=0.0, implicit_exc=0.0)
  if name == 'c02':
    return Profile(
        name='c02', pure=True, unsafe_reads=0.0, implicit_exc=0.0, use_try=False,
        use_with=False, use_raise=False, use_lambda=True, lambda_later=False,
        use_comprehension=False, use_global=False, use_nonlocal=False,
        nested_writes=False, use_T=False, use_del=False, use_list_mutation=False,
        use_factory=False, n_helpers=1, dead_code=0.0, use_calls=True)
  if name == 'c05':
    return Profile(name='c05', unsafe_reads=0.0, implicit_exc=0.0, use_loop_else=True, hostile_finally=True)
  if name == 'c06':
    return Profile(name='c06', unsafe_reads=0.0, implicit_exc=0.0, use_factory=False)
  if name == 'c08':
    return Profile(name='c08', unsafe_reads=0.0, implicit_exc=0.0, use_factory=False, comp_shadow=True)
  if name == 'c07':
    return Profile(name='c07', unsafe_reads=0.0, implicit_exc=0.0, use_factory=False, lambda_later=False)
  if name == 'c11':
    return Profile(name='c11', adversarial_idents=True, unsafe_reads=0.0, implicit_exc=0.0)
  if name == 'c17':
    return Profile(name='c17', use_unusual=True, unsafe_reads=0.0, implicit_exc=0.0, use_docstrings=True)
  if name == 'c03':
    return Profile(name='c03', use_directives=True, unsafe_reads=0.02)
  raise KeyError(name)


class Block(object):
  """Flow state while emitting one block."""

  def __init__(self, defined, maybe):
    self.defined = set(defined)   # definitely assigned int variables
    self.maybe = set(maybe)       # possibly assigned
    self.dead = False             # control cannot reach the end of the block

  def fork(self):
    return Block(self.defined, self.maybe)


def join(blocks, base):
  live = [b for b in blocks if not b.dead]
  out = Block(base.defined, base.maybe)
  if not live:
    out.dead = True
    out.defined = set(base.defined)
    for b in blocks:
      out.maybe |= b.maybe | b.defined
    return out
  d = None
  for b in live:
    d = set(b.defined) if d is None else (d & b.defined)
  out.defined = d
  for b in blocks:
    out.maybe |= b.maybe | b.defined
  return out


class FnCtx(object):
  """Per-function generation context."""

  def __init__(self, name, level):
    self.name = name
    self.level = level
    self.loop_depth = 0
    self.in_try = 0          # inside any try statement (no implicit exceptions)
    self.in_finally = 0
    self.iterating = []      # lists being iterated (no append)
    self.captured = set()    # variables captured by closures (never deleted)
    self.lists = set()       # local list variables definitely assigned
    self.funcs = {}          # local callable name -> arity
    self.globals_declared = set()
    self.nonlocals = set()   # names declared nonlocal here (enclosing ints)
    self.enclosing = set()   # readable enclosing ints (closure reads)
    self.counter = 0
    self.nstmts = 0
    self.params = set()
    self.loop_markers = []
    self.may_raise = False
    self.localpool = []
    self.is_helper = False
    self.counters = []
    self.outer_funcs = {}
    self.del_stack = []


class Gen(object):

  def __init__(self, seed, prof):
    self.rng = random.Random(seed)
    self.p = prof
    self.lines = []
    self.tag = 0
    self.uid = 0
    self.meta = {'directives': {}, 'helpers': [], 'factory': False}
    self.raising = {}
    if prof.adversarial_idents:
      pool = []
      for r in ADV_ROOTS:
        pool.append(r)
      for r in ADV_ROOTS:
        pool.append(r + '_1')
      self.rng.shuffle(pool)
      self.varpool = pool[:6]
      self.extra_idents = pool[6:]
    else:
      self.varpool = list(PLAIN_VARS)
      self.extra_idents = []

  # ---- helpers
  def newtag(self):
    self.tag += 1
    return 't%d' % self.tag

  def fresh(self, root):
    self.uid += 1
    if self.p.adversarial_idents and self.extra_idents and self.rng.random() < 0.5:
      return self.extra_idents.pop()
    return '%s%d' % (root, self.uid)

  def emit(self, ind, text):
    self.lines.append('    ' * ind + text)

  def chance(self, pr):
    return self.rng.random() < pr

  # ---- expressions (int-valued)
  def atom(self, fc, blk, allow_unsafe=True):
    r = self.rng.random()
    names = sorted((blk.defined | fc.enclosing) - set(fc.funcs))
    if allow_unsafe and self.p.unsafe_reads and self.chance(self.p.unsafe_reads) and not fc.in_try:
      cand = sorted((blk.maybe - blk.defined) - set(fc.funcs))
      if cand:
        fc.may_raise = True
        return self.rng.choice(cand)
    if r < 0.55 and names:
      return self.rng.choice(names)
    if r < 0.62 and self.p.use_global and not self.p.pure:
      return self.rng.choice(['G1', 'G2', 'zG3'])
    if r < 0.70 and self.p.use_attrs:
      return self.rng.choice(['o.p', 'o.q', "d['k']", "d['m']", "d['k.m']"])
    return str(self.rng.choice([0, 1, 2, 3, 5, 7, -1, -2]))

  def expr(self, fc, blk, depth=0):
    r = self.rng.random()
    if depth >= 3 or r < 0.30:
      return self.atom(fc, blk)
    if r < 0.55:
      op = self.rng.choice(['+', '-', '+', '-', '*'])
      rhs = self.expr(fc, blk, depth + 1) if op != '*' else str(self.rng.choice([2, 3, -1]))
      return '(%s %s %s)' % (self.expr(fc, blk, depth + 1), op, rhs)
    if r < 0.60:
      return '(%s %s %d)' % (self.expr(fc, blk, depth + 1), self.rng.choice(['%', '//']),
                             self.rng.choice([2, 3, 5]))
    if r < 0.72 and self.p.use_T and not self.p.pure:
      return 'T(%r, %s)' % (self.newtag(), self.expr(fc, blk, depth + 1))
    if r < 0.80 and self.p.use_ifexp:
      return '(%s if %s else %s)' % (self.expr(fc, blk, depth + 1), self.cond(fc, blk, depth + 1),
                                     self.expr(fc, blk, depth + 1))
    if r < 0.90 and self.p.use_calls:
      return self.call(fc, blk, depth + 1)
    if r < 0.93 and self.p.implicit_exc and not fc.in_try and self.chance(self.p.implicit_exc * 5):
      fc.may_raise = True
      return self.rng.choice(['xs[%d]' % self.rng.choice([0, 1, 4]), "d['zz']",
                              '(7 // %s)' % self.atom(fc, blk), 'o.nope'])
    if r < 0.96 and self.p.use_boolops:
      # int-valued and/or
      return '(%s %s %s)' % (self.expr(fc, blk, depth + 1), self.rng.choice(['and', 'or']),
                             self.expr(fc, blk, depth + 1))
    if self.p.use_lambda and depth < 2:
      prm = self.fresh('p')
      return '(lambda %s: %s + %s)(%s)' % (prm, prm, self.atom(fc, blk, False), self.expr(fc, blk, depth + 1))
    return self.atom(fc, blk)

  def call(self, fc, blk, depth):
    choices = ['builtin', 'builtin']
    if not self.p.pure:
      choices += ['H', 'H2', 'meth', 'partial', 'R', 'falsy_meth']
    else:
      choices += ['pureH']
    if self.meta['helpers'] and fc.level == 0 and fc.name not in self.meta['helpers'][:1]:
      idx = self.meta['helpers'].index(fc.name) if fc.name in self.meta['helpers'] else len(self.meta['helpers'])
      self._callable_helpers = [h for h in self.meta['helpers'][:idx]
                                if not (fc.in_try and self.raising.get(h))]
      if self._callable_helpers:
        choices += ['helper', 'helper']
    self._callable_locals = sorted(n for n in fc.funcs if n in blk.defined
                                   and not (fc.in_try and fc.funcs[n]))
    if self._callable_locals:
      choices += ['local', 'local']
    self._callable_outer = sorted(n for n in fc.outer_funcs if not (fc.in_try and fc.outer_funcs[n]))
    if self._callable_outer:
      choices += ['outerlocal', 'outerlocal']
    k = self.rng.choice(choices)
    e = lambda: self.expr(fc, blk, depth + 1)
    if k == 'builtin':
      b = self.rng.choice(['abs', 'len', 'min', 'max', 'sum', 'int', 'sorted', 'rng'])
      if b == 'abs':
        return 'abs(%s)' % e()
      if b == 'len':
        return 'len(xs)'
      if b == 'min':
        return 'min(%s, %s)' % (e(), e())
      if b == 'max':
        return 'max(%s, %s)' % (e(), e())
      if b == 'sum':
        return 'sum(xs)'
      if b == 'int':
        return 'int(%s)' % e()
      if b == 'sorted':
        return 'len(sorted(xs))'
      return 'len(range(%s %% 5))' % self.atom(fc, blk)
    if k == 'H':
      return 'H(%s)' % e()
    if k == 'pureH':
      return 'PH(%s)' % e()
    if k == 'H2':
      if self.chance(0.5):
        return 'H2(%s, y=%s)' % (e(), e())
      return 'H2(%s)' % e()
    if k == 'meth':
      return 'o.meth(%s)' % e()
    if k == 'falsy_meth':
      return self.rng.choice(['FZ.bump(%s)', 'FZ.bump(%s, k=2)']) % e()
    if k == 'partial':
      return self.rng.choice(['P1(%s)', 'P1(y=%s)', 'P2(%s)']) % e()
    if k == 'R':
      return 'R(%s %% 4)' % e()
    if k == 'helper':
      callee = self.rng.choice(self._callable_helpers)
      if self.raising.get(callee):
        fc.may_raise = True
      xs_arg = 'list(xs)' if fc.iterating else 'xs'
      return '%s(%s, %s, %s, %s, o, d)' % (callee, e(), e(), self.atom(fc, blk), xs_arg)
    if k == 'outerlocal':
      name = self.rng.choice(self._callable_outer)
      if fc.outer_funcs[name]:
        fc.may_raise = True
      return '%s(%s)' % (name, e())
    # local function / lambda
    name = self.rng.choice(self._callable_locals)
    if fc.funcs[name]:
      fc.may_raise = True
    return '%s(%s)' % (name, e())

  def cond(self, fc, blk, depth=0):
    r = self.rng.random()
    if depth >= 3 or r < 0.45:
      op = self.rng.choice(['<', '<=', '>', '>=', '==', '!='])
      return '%s %s %s' % (self.expr(fc, blk, depth + 1), op, self.expr(fc, blk, depth + 1))
    if r < 0.55:
      a, b, c = self.expr(fc, blk, depth + 2), self.atom(fc, blk), self.expr(fc, blk, depth + 2)
      if self.p.use_chain_side_effect and self.p.use_T:
        b = 'T(%r, %s)' % (self.newtag(), b)
      return '%s %s %s %s %s' % (a, self.rng.choice(['<', '<=']), b, self.rng.choice(['<', '<=', '!=']), c)
    if r < 0.78 and self.p.use_boolops:
      return '(%s %s %s)' % (self.cond(fc, blk, depth + 1), self.rng.choice(['and', 'or']),
                             self.cond(fc, blk, depth + 1))
    if r < 0.86 and self.p.use_boolops:
      return 'not %s' % self.cond_atom(fc, blk, depth + 1)
    if r < 0.93 and self.p.use_T and not self.p.pure:
      return 'T(%r, %s)' % (self.newtag(), self.cond(fc, blk, depth + 1))
    if self.p.use_attrs:
      return '%s in d' % self.rng.choice(["'k'", "'zz'"])
    return self.cond_atom(fc, blk, depth)

  def cond_atom(self, fc, blk, depth):
    return '(%s)' % self.cond(fc, blk, depth + 1)

  # ---- statements
  def target_var(self, fc, blk):
    pool = list(fc.localpool)
    if fc.nonlocals:
      pool += sorted(fc.nonlocals)
    return self.rng.choice(pool)

  def block(self, fc, blk, ind, depth, budget, kinds=None):
    """Emits 1..budget statements; returns the number emitted."""
    n = self.rng.randint(1, max(1, budget))
    emitted = 0
    for _ in range(n):
      if blk.dead and not self.chance(self.p.dead_code):
        break
      if fc.nstmts >= self.p.max_stmts:
        break
      self.stmt(fc, blk, ind, depth)
      emitted += 1
    if emitted == 0:
      self.emit(ind, 'pass')
    return emitted

  def stmt(self, fc, blk, ind, depth):
    fc.nstmts += 1
    p = self.p
    opts = [('assign', 10), ('effect', 3 if not p.pure else 0)]
    if p.use_augassign:
      opts.append(('augassign', 4))
    if p.use_tuple_assign:
      opts.append(('tupassign', 2))
    if p.use_attrs:
      opts.append(('attrassign', 3))
    if depth < p.max_depth:
      opts.append(('if', 8))
      if p.use_while:
        opts.append(('while', 4))
      if p.use_for:
        opts.append(('for', 6))
      if p.use_try and (not fc.in_finally or p.hostile_finally):
        opts.append(('try', 3))
      if p.use_with:
        opts.append(('with', 2))
      if p.use_nested_def and fc.level < 2 and not (p.pure and depth > 0):
        opts.append(('def', 2))
    if p.use_lambda and fc.level < 2 and not (p.pure and p.lambda_later and depth > 0):
      opts.append(('lambda', 1))
    if p.use_nested_def and any(n in blk.defined for n in fc.funcs) and not p.pure:
      opts.append(('alias', 1))
    if p.use_nested_def and fc.level < 2 and depth < p.max_depth and not p.pure:
      opts.append(('defboth', 1))
    if p.use_unusual and fc.level == 0 and not fc.in_try:
      opts.append(('unusual', 5))
    if p.use_comprehension:
      opts.append(('comp', 1))
    if p.use_jumps and (not fc.in_finally or p.hostile_finally):
      if fc.loop_depth > 0:
        opts.append(('break', 3))
        opts.append(('continue', 3))
      opts.append(('return', 2 if depth > 0 else 0))
    if p.use_raise and depth > 0 and (not fc.in_finally or p.hostile_finally):
      opts.append(('raise', 1))
    if p.use_del and blk.defined and fc.loop_depth == 0:
      opts.append(('del', 1))
    if p.use_global and fc.globals_declared:
      opts.append(('globalassign', 2))
    if p.use_list_mutation and not p.pure:
      opts.append(('listmut', 2))
    total = sum(w for _, w in opts)
    r = self.rng.random() * total
    kind = opts[-1][0]
    for k, w in opts:
      if r < w:
        kind = k
        break
      r -= w
    getattr(self, 's_' + kind)(fc, blk, ind, depth)

  def s_assign(self, fc, blk, ind, depth):
    v = self.target_var(fc, blk)
    self.emit(ind, '%s = %s' % (v, self.expr(fc, blk)))
    blk.defined.add(v)

  def s_augassign(self, fc, blk, ind, depth):
    cand = sorted(blk.defined & (set(fc.localpool) | fc.nonlocals))
    if self.p.unsafe_reads and self.chance(self.p.unsafe_reads) and not fc.in_try:
      cand = sorted((blk.maybe | blk.defined) & (set(fc.localpool) | fc.nonlocals)) or cand
      fc.may_raise = True
    if not cand:
      return self.s_assign(fc, blk, ind, depth)
    v = self.rng.choice(cand)
    op = self.rng.choice(['+', '-', '+', '*'])
    rhs = self.expr(fc, blk, 1) if op != '*' else str(self.rng.choice([2, 3, -1]))
    self.emit(ind, '%s %s= %s' % (v, op, rhs))

  def s_tupassign(self, fc, blk, ind, depth):
    v1 = self.target_var(fc, blk)
    v2 = self.target_var(fc, blk)
    if v1 == v2:
      return self.s_assign(fc, blk, ind, depth)
    form = self.rng.choice(['%s, %s = %s, %s', '(%s, %s) = (%s, %s)', '[%s, %s] = %s, %s'])
    self.emit(ind, form % (v1, v2, self.expr(fc, blk, 1), self.expr(fc, blk, 1)))
    blk.defined.update([v1, v2])

  def s_attrassign(self, fc, blk, ind, depth):
    if self.p.pure and (fc.level > 0 or fc.is_helper):
      return self.s_assign(fc, blk, ind, depth)   # pure callees: no hidden side effects
    t = self.rng.choice(['o.p', 'o.q', "d['k']", "d['m']", "d['k.m']", "d['k[0]']"])
    if not self.p.pure and self.chance(0.15):
      # element state whose index goes through an attribute of an object that is bound in this very block
      pk = self.fresh('pk')
      self.emit(ind, '%s = Obj(%s %% 3, 0)' % (pk, self.atom(fc, blk, False)))
      self.emit(ind, 'd[%s.p] = %s' % (pk, self.expr(fc, blk, 1)))
      return
    if self.chance(0.3):
      self.emit(ind, '%s += %s' % (t, self.expr(fc, blk, 1)))
    else:
      self.emit(ind, '%s = %s' % (t, self.expr(fc, blk, 1)))

  def s_globalassign(self, fc, blk, ind, depth):
    g = self.rng.choice(sorted(fc.globals_declared))
    if self.chance(0.4):
      self.emit(ind, '%s += %s' % (g, self.expr(fc, blk, 1)))
    else:
      self.emit(ind, '%s = %s' % (g, self.expr(fc, blk, 1)))

  def s_effect(self, fc, blk, ind, depth):
    if self.p.use_T:
      self.emit(ind, 'T(%r, %s)' % (self.newtag(), self.expr(fc, blk, 1)))
    else:
      self.emit(ind, 'H(%s)' % self.expr(fc, blk, 1))

  def s_listmut(self, fc, blk, ind, depth):
    r = self.rng.random()
    if r < 0.5 and 'xs' not in fc.iterating:
      self.emit(ind, 'xs.append(%s)' % self.expr(fc, blk, 1))
    elif r < 0.8 and self.p.implicit_exc and not fc.in_try:
      fc.may_raise = True
      self.emit(ind, 'xs[0] = %s' % self.expr(fc, blk, 1))
    elif r < 0.9 or self.p.pure:
      self.emit(ind, "d['m'] = %s" % self.expr(fc, blk, 1))
    else:
      # constant-index element state with a negative index / a negative key
      self.emit(ind, self.rng.choice(["d[-1] = %s", "NL[-1] = %s", "NL[-2] = %s"]) % self.expr(fc, blk, 1))

  def s_unusual(self, fc, blk, ind, depth):
    self.uid += 1
    text = self.rng.choice(UNUSUAL).format(t=self.newtag(), n=self.uid)
    for ln in text.split('\n'):
      self.emit(ind, ln)

  def s_if(self, fc, blk, ind, depth):
    self.emit(ind, 'if %s:' % self.cond(fc, blk))
    b1 = blk.fork()
    self.block(fc, b1, ind + 1, depth + 1, 3)
    branches = [b1]
    nelif = 0
    while self.chance(0.2) and nelif < 2:
      nelif += 1
      self.emit(ind, 'elif %s:' % self.cond(fc, blk))
      bk = blk.fork()
      self.block(fc, bk, ind + 1, depth + 1, 2)
      branches.append(bk)
    if self.chance(0.5):
      self.emit(ind, 'else:')
      b2 = blk.fork()
      self.block(fc, b2, ind + 1, depth + 1, 3)
      branches.append(b2)
    else:
      branches.append(blk.fork())
    j = join(branches, blk)
    blk.defined, blk.maybe, blk.dead = j.defined, j.maybe, j.dead

  def _directive(self, fc, ind, marker, ambiguous=False):
    self.meta.setdefault('loops', []).append(marker)
    if ambiguous:
      self.meta.setdefault('ambiguous', []).append(marker)
      return
    if not self.p.use_directives or not self.chance(0.35):
      return
    kws = []
    if self.chance(0.6):
      kws.append(('parallel_iterations', str(self.rng.choice([1, 4, 10]))))
    if self.chance(0.4):
      kws.append(('swap_memory', self.rng.choice(['True', 'False'])))
    if self.chance(0.4):
      kws.append(('maximum_iterations', str(self.rng.choice([5, 50]))))
    if not kws:
      kws.append(('parallel_iterations', '2'))
    self.emit(ind, 'malt.experimental.set_loop_options(%s)' % ', '.join('%s=%s' % kv for kv in kws))
    self.meta['directives'][marker] = dict(kws)

  def s_while(self, fc, blk, ind, depth):
    w = self.fresh('w')
    fc.counters.append(w)
    n = self.rng.choice([0, 1, 2, 3, 4])
    self.emit(ind, '%s = 0' % w)
    form = self.rng.random()
    body = blk.fork()
    body.defined.add(w)
    blk.defined.add(w)
    fc.loop_depth += 1
    if form < 0.45:
      self.emit(ind, 'while %s < %d and %s:' % (w, n, self.cond(fc, blk)))
      self._directive(fc, ind + 1, w)
      self.emit(ind + 1, '%s += 1' % w)
    elif form < 0.7:
      self.emit(ind, 'while %s < %d:' % (w, n))
      self._directive(fc, ind + 1, w)
      self.emit(ind + 1, '%s += 1' % w)
    elif form < 0.85:
      self.emit(ind, 'while %s and %s < %d:' % (self.cond(fc, blk), w, n))
      self._directive(fc, ind + 1, w)
      self.emit(ind + 1, '%s += 1' % w)
    else:
      self.emit(ind, 'while True:')
      self._directive(fc, ind + 1, w)
      self.emit(ind + 1, '%s += 1' % w)
      self.emit(ind + 1, 'if %s > %d:' % (w, n))
      self.emit(ind + 2, 'break')
    self.block(fc, body, ind + 1, depth + 1, 3)
    fc.loop_depth -= 1
    if self.p.use_loop_else and self.chance(0.2):
      self.emit(ind, 'else:')
      eb = blk.fork()
      self.block(fc, eb, ind + 1, depth + 1, 2)
      blk.maybe |= eb.defined | eb.maybe
      blk.defined &= eb.defined      # names deleted in the else clause
    blk.maybe |= body.defined | body.maybe
    # `while True` exits only via break; definite assignment stays conservative.

  def s_for(self, fc, blk, ind, depth):
    r = self.rng.random()
    body = blk.fork()
    reuse = self.p.reuse_loop_targets and self.chance(0.35)
    def tgt():
      if reuse:
        return self.rng.choice(fc.localpool)
      return self.fresh('i')
    it_list = None
    if r < 0.35:
      t = tgt()
      hdr = 'for %s in range(%s):' % (t, self.rng.choice(['0', '1', '2', '3', 'len(xs)', '%s %% 4' % self.atom(fc, blk, False)]))
      tg = [t]
    elif r < 0.55:
      t = tgt()
      hdr = 'for %s in xs:' % t
      tg = [t]
      it_list = 'xs'
    elif r < 0.68:
      t = tgt()
      items = ', '.join(self.expr(fc, blk, 2) for _ in range(self.rng.randint(0, 3)))
      hdr = 'for %s in [%s]:' % (t, items) if self.chance(0.5) else 'for %s in (%s):' % (t, items + (',' if items else ''))
      tg = [t]
    elif r < 0.80:
      t1, t2 = tgt(), tgt()
      if t1 == t2:
        t2 = self.fresh('j')
      pairs = ', '.join('(%s, %s)' % (self.expr(fc, blk, 2), self.expr(fc, blk, 2)) for _ in range(self.rng.randint(0, 3)))
      hdr = 'for %s, %s in [%s]:' % (t1, t2, pairs)
      tg = [t1, t2]
    elif r < 0.85:
      t1, t2 = tgt(), tgt()
      if t1 == t2:
        t2 = self.fresh('j')
      hdr = self.rng.choice(['for %s, %s in enumerate(xs):', 'for (%s, %s) in zip(xs, range(5)):']) % (t1, t2)
      tg = [t1, t2]
      it_list = 'xs'
    elif r < 0.90:
      # nested and starred target patterns
      ts = []
      for _ in range(3):
        t = tgt()
        while t in ts:
          t = self.fresh('j')
        ts.append(t)
      rest = self.fresh('rest')
      form = self.rng.choice(['for %(a)s, (%(b)s, %(c)s) in enumerate(zip(xs, range(5))):',
                              'for (%(a)s, [%(b)s, %(c)s]) in zip(xs, zip(xs, range(5))):',
                              'for %(a)s, *%(r)s in zip(xs, xs, range(5)):',
                              'for %(a)s, (%(b)s, *%(r)s), %(c)s in zip(xs, zip(xs, xs, xs), range(5)):'])
      hdr = form % {'a': ts[0], 'b': ts[1], 'c': ts[2], 'r': rest}
      tg = [t for t, k in zip(ts, 'abc') if '%%(%s)s' % k in form]
      it_list = 'xs'
    elif r < 0.95 or self.p.pure:
      t = tgt()
      hdr = 'for %s in iter(xs):' % t
      tg = [t]
      it_list = 'xs'
    else:
      t = tgt()
      hdr = 'for %s in LI(%r, xs):' % (t, self.newtag())
      tg = [t]
    self.emit(ind, hdr)
    self._directive(fc, ind + 1, ' '.join(tg), ambiguous=reuse)
    body.defined.update(tg)
    fc.loop_depth += 1
    if it_list:
      fc.iterating.append(it_list)
    self.block(fc, body, ind + 1, depth + 1, 3)
    if it_list:
      fc.iterating.pop()
    fc.loop_depth -= 1
    if self.p.use_loop_else and self.chance(0.2):
      self.emit(ind, 'else:')
      eb = blk.fork()
      self.block(fc, eb, ind + 1, depth + 1, 2)
      blk.maybe |= eb.defined | eb.maybe
      blk.defined &= eb.defined      # names deleted in the else clause
    blk.maybe |= body.defined | body.maybe

  def s_break(self, fc, blk, ind, depth):
    self.emit(ind, 'break')
    blk.dead = True

  def s_continue(self, fc, blk, ind, depth):
    self.emit(ind, 'continue')
    blk.dead = True

  def s_return(self, fc, blk, ind, depth):
    r = self.rng.random()
    if fc.level > 0 or fc.is_helper:
      r = 1.0   # callees are used inside int expressions: always return an int
    if r < 0.15:
      self.emit(ind, 'return')
    elif r < 0.3:
      self.emit(ind, 'return (%s, %s)' % (self.expr(fc, blk, 1), self.expr(fc, blk, 1)))
    else:
      self.emit(ind, 'return %s' % self.expr(fc, blk, 1))
    blk.dead = True

  def s_raise(self, fc, blk, ind, depth):
    fc.may_raise = True
    r = self.rng.random()
    if r < 0.4:
      self.emit(ind, "raise E1('e%d')" % self.rng.randint(0, 9))
    elif r < 0.6:
      self.emit(ind, "raise E2('x', %s)" % self.atom(fc, blk))
    elif r < 0.75:
      self.emit(ind, "raise E3('sub')")
    elif r < 0.85:
      self.emit(ind, "raise ValueError(%s)" % self.atom(fc, blk))
    elif r < 0.93 and self.p.use_base_exc:
      self.emit(ind, "raise B1('b%d')" % self.rng.randint(0, 9))     # not an Exception: passes `except Exception`
    else:
      self.emit(ind, 'raise KeyError')
    blk.dead = True

  def s_del(self, fc, blk, ind, depth):
    cand = sorted((blk.defined & set(fc.localpool)) - fc.captured - fc.nonlocals - set(fc.funcs))
    if not cand:
      return self.s_assign(fc, blk, ind, depth)
    v = self.rng.choice(cand)
    self.emit(ind, 'del %s' % v)
    blk.defined.discard(v)
    blk.maybe.discard(v)
    for st in fc.del_stack:
      st.add(v)

  def s_with(self, fc, blk, ind, depth):
    if self.chance(0.4):
      c = self.fresh('cm')
      self.emit(ind, 'with CM(%r) as %s:' % (self.newtag(), c))
    elif self.chance(0.3):
      self.emit(ind, 'with CM(%r), CM(%r):' % (self.newtag(), self.newtag()))
    else:
      self.emit(ind, 'with CM(%r):' % self.newtag())
    self.block(fc, blk, ind + 1, depth + 1, 3)

  def s_try(self, fc, blk, ind, depth):
    """try statement. Inside: no implicitly raising operation. A finally block of
    a try that lexically contains a raise is inert (constant T calls only)."""
    start = len(self.lines)
    has_handlers = self.chance(0.7)
    has_finally = (not has_handlers) or self.chance(0.35)
    fc.in_try += 1
    deleted = set()
    fc.del_stack.append(deleted)
    self.emit(ind, 'try:')
    body = blk.fork()
    self.block(fc, body, ind + 1, depth + 1, 3)
    ends = []
    if has_handlers:
      nh = self.rng.randint(1, 2)
      used_bare = False
      for k in range(nh):
        hb = Block(blk.defined - deleted, blk.maybe | body.defined | body.maybe)
        r = self.rng.random()
        if r < 0.35:
          hdr = 'except E1:'
        elif r < 0.5:
          hdr = 'except (E1, E2):'
        elif r < 0.62 and self.p.use_except_as:
          en = self.fresh('ex')
          hdr = 'except E1 as %s:' % en
        elif r < 0.72:
          hdr = 'except E2:'
        elif r < 0.82:
          hdr = 'except Exception:'
        elif r < 0.88 and self.p.use_base_exc:
          hdr = self.rng.choice(['except BaseException:', 'except B1:', 'except (B1, E1):'])
        elif k == nh - 1 and not used_bare:
          hdr = 'except:'
          used_bare = True
        else:
          hdr = 'except ValueError:'
        self.emit(ind, hdr)
        self.block(fc, hb, ind + 1, depth + 1, 2)
        ends.append(hb)
      if self.chance(0.2):
        self.emit(ind, 'else:')
        self.block(fc, body, ind + 1, depth + 1, 2)
    ends.append(body)
    fc.in_try -= 1
    fc.del_stack.pop()
    j = join(ends, blk)
    if has_finally:
      self.emit(ind, 'finally:')
      text = '\n'.join(self.lines[start:])
      raises = 'raise ' in text
      fc.in_finally += 1
      fc.in_try += 1
      if raises and not self.p.hostile_finally:
        for _ in range(self.rng.randint(1, 2)):
          self.emit(ind + 1, 'T(%r, %d)' % (self.newtag(), self.rng.randint(0, 9)) if not self.p.pure else 'pass')
      else:
        fb_entry = blk.defined - deleted
        fb = Block(fb_entry, blk.maybe | j.maybe | j.defined)
        self.block(fc, fb, ind + 1, depth + 1, 2)
        j.defined |= (fb.defined - blk.defined) | set()
        j.defined -= (fb_entry - fb.defined)     # names deleted inside the finally block
        j.maybe |= fb.maybe | fb.defined
      fc.in_try -= 1
      fc.in_finally -= 1
    blk.defined, blk.maybe, blk.dead = j.defined, j.maybe, j.dead

  def s_def(self, fc, blk, ind, depth):
    name = self.fresh('fn')
    prm = self.fresh('p')
    inner = FnCtx(name, fc.level + 1)
    inner.enclosing = (set(blk.defined) | fc.enclosing) - set(fc.funcs)
    inner.params = {prm}
    inner.funcs = {}
    inner.localpool = list(LOCAL_POOLS[inner.level])
    # local functions of the enclosing function that exist now may be called from inside (indirect closures)
    inner.outer_funcs = {n: r for n, r in fc.funcs.items() if n in blk.defined}
    inner.outer_funcs.update(fc.outer_funcs)
    inner.iterating = ['xs']
    inner.globals_declared = set()
    self.emit(ind, 'def %s(%s):' % (name, prm))
    ib = Block({prm}, set())
    writable = sorted((blk.defined & (set(fc.localpool) | fc.nonlocals)) - set(fc.funcs))
    if self.p.use_nonlocal and self.p.nested_writes and writable and self.chance(0.45):
      nl = self.rng.sample(writable, min(len(writable), self.rng.randint(1, 2)))
      self.emit(ind + 1, 'nonlocal %s' % ', '.join(nl))
      inner.nonlocals = set(nl)
      ib.defined |= set(nl)
    inner.local_shadow = set()
    inner_top = len(self.lines)
    saved = self.p.max_stmts
    inner.nstmts = max(0, saved - 6)
    self.block(inner, ib, ind + 1, depth + 1, 3)
    if not ib.dead:
      self.emit(ind + 1, 'return %s' % self.expr(inner, ib, 1))
    self._hoist(inner, inner_top, ind + 1)
    fc.captured |= inner.enclosing | inner.nonlocals | set(inner.outer_funcs)
    fc.funcs[name] = inner.may_raise
    blk.defined.add(name)
    if self.chance(0.6) and not (fc.in_try and inner.may_raise):
      if inner.may_raise:
        fc.may_raise = True
      v = self.target_var(fc, blk)
      self.emit(ind, '%s = %s(%s)' % (v, name, self.expr(fc, blk, 1)))
      blk.defined.add(v)

  def s_alias(self, fc, blk, ind, depth):
    src = self.rng.choice(sorted(n for n in fc.funcs if n in blk.defined))
    name = self.fresh('al')
    self.emit(ind, '%s = %s' % (name, src))
    fc.funcs[name] = fc.funcs[src]
    fc.captured.add(src)
    blk.defined.add(name)

  def s_defboth(self, fc, blk, ind, depth):
    """The same local function defined in both branches of an if (neither definition dominates later uses)."""
    name = self.fresh('fb')
    self.emit(ind, 'if %s:' % self.cond(fc, blk))
    raising = False
    for branch in (0, 1):
      if branch:
        self.emit(ind, 'else:')
      for _ in range(self.rng.randint(0, 2)):
        v = self.target_var(fc, blk)
        self.emit(ind + 1, '%s = %s' % (v, self.atom(fc, blk, False)))
        blk.maybe.add(v)
      prm = self.fresh('p')
      reads = sorted((blk.defined | fc.enclosing) - set(fc.funcs))
      r = self.rng.choice(reads) if reads else '0'
      self.emit(ind + 1, 'def %s(%s):' % (name, prm))
      self.emit(ind + 2, 'return %s + %s + %d' % (prm, r, branch))
      if reads:
        fc.captured.add(r)
    fc.funcs[name] = raising
    blk.defined.add(name)

  def s_lambda(self, fc, blk, ind, depth):
    name = self.fresh('lam')
    prm = self.fresh('q')
    fr = self.atom(fc, blk, False)
    body = self.rng.choice(['%s + %s' % (prm, fr), '%s if %s > %s else %s' % (prm, prm, fr, fr),
                            '(%s, %s)[0]' % (prm, fr), 'H2(%s, %s)' % (prm, fr) if not self.p.pure else '%s - %s' % (prm, fr)])
    if self.p.lambda_later:
      self.emit(ind, '%s = lambda %s: %s' % (name, prm, body))
      fc.funcs[name] = False
      blk.defined.add(name)
      fc.captured |= set(blk.defined)
    else:
      v = self.target_var(fc, blk)
      self.emit(ind, '%s = (lambda %s: %s)(%s)' % (v, prm, body, self.expr(fc, blk, 1)))
      blk.defined.add(v)

  def s_comp(self, fc, blk, ind, depth):
    v = self.target_var(fc, blk)
    e = self.fresh('e')
    r = self.rng.random()
    elt = '%s + %s' % (e, self.atom(fc, blk, False))
    if self.p.comp_shadow and self.chance(0.5):
      cands = sorted(n for n in blk.defined if n in fc.localpool)
      if cands:
        w = self.rng.choice(cands)
        form = self.rng.choice(['sum([%(w)s + %(k)s for %(w)s in [%(w)s, %(k)s]])', 'sum(%(w)s * 2 for %(w)s in (%(w)s,))',
                                'len({%(w)s: %(k)s for %(w)s in range(%(w)s %% 3)})', 'max({%(w)s for %(w)s in [%(k)s, %(w)s]})'])
        self.emit(ind, '%s = %s' % (v, form % {'w': w, 'k': self.atom(fc, blk, False)}))
        blk.defined.add(v)
        return
    if self.p.use_T and self.chance(0.5):
      elt = 'T(%r, %s)' % (self.newtag(), elt)
    if r < 0.4:
      self.emit(ind, '%s = sum([%s for %s in xs if %s > %s])' % (v, elt, e, e, self.atom(fc, blk, False)))
    elif r < 0.7:
      self.emit(ind, '%s = len({%s: %s for %s in range(3)})' % (v, e, elt, e))
    else:
      self.emit(ind, '%s = sum(%s for %s in xs)' % (v, elt, e))
    blk.defined.add(v)

  # ---- functions
  def function(self, name, ind=0, is_helper=False):
    fc = FnCtx(name, 0)
    fc.params = set(PARAMS)
    fc.localpool = list(self.varpool)
    fc.is_helper = is_helper
    self.emit(ind, 'def %s(%s):' % (name, SIG))
    blk = Block({'a', 'b', 'c'}, set())
    if self.p.use_docstrings and self.chance(0.5):
      self.emit(ind + 1, '"""Docstring of %s, first line.' % name)
      self.lines.append('')
      self.lines.append('  continuation line indented less than the body')
      self.emit(ind + 1, 'continuation line at body level, with a quote \' here')
      self.lines.append('at column zero')
      self.emit(ind + 1, '"""')
    if self.p.use_global and self.chance(0.3):
      gs = self.rng.sample(['G1', 'G2', 'zG3'], self.rng.randint(1, 2))
      self.emit(ind + 1, 'global %s' % ', '.join(gs))
      fc.globals_declared = set(gs)
    top_idx = len(self.lines)
    # most variables start defined so that reads are plentiful
    for v in self.varpool:
      if self.chance(0.55 if not self.p.pure else 0.8):
        self.emit(ind + 1, '%s = %s' % (v, self.rng.choice(['a', 'b', 'c', '0', '1', 'a + b', 'b - c'])))
        blk.defined.add(v)
    if self.p.pure:
      for v in self.varpool:
        if v not in blk.defined:
          self.emit(ind + 1, '%s = 0' % v)
          blk.defined.add(v)
    fc.nstmts = 0
    while fc.nstmts < self.p.max_stmts * (0.5 if is_helper else 1.0) and not blk.dead:
      self.stmt(fc, blk, ind + 1, 0)
      if self.chance(0.08):
        break
    if not blk.dead:
      vs = sorted(blk.defined - {'a', 'b', 'c'} - set(fc.funcs))
      self.rng.shuffle(vs)
      items = vs[:4] or ['a']
      if self.p.unsafe_reads and self.chance(self.p.unsafe_reads * 3):
        items = items + sorted(blk.maybe - blk.defined)[:1]
      if is_helper:
        self.emit(ind + 1, 'return %s' % ' + '.join(items))
      else:
        self.emit(ind + 1, 'return (%s,)' % ', '.join(items))
    self._hoist(fc, top_idx, ind + 1)
    self.raising[name] = fc.may_raise
    return fc

  def _hoist(self, fc, idx, ind):
    """Pure profile: every variable exists before the control-flow statement
    that assigns it (documented staging limitation), so loop counters are also
    initialised at the top of their function."""
    if self.p.pure and fc.counters:
      self.lines[idx:idx] = ['    ' * ind + '%s = 0' % w for w in fc.counters]

  def module(self):
    self.lines = []
    if self.p.use_directives:
      self.emit(0, 'import malt')
    if self.p.pure:
      self.emit(0, 'def PH(x):')
      self.emit(1, 'r = 0')
      self.emit(1, 'for k in range(3):')
      self.emit(2, 'if k > x:')
      self.emit(3, 'break')
      self.emit(2, 'r += k')
      self.emit(1, 'return r + x')
    for k in range(self.p.n_helpers):
      name = 'g%d' % k
      self.meta['helpers'].append(name)
      self.function(name, 0, is_helper=True)
    if self.p.use_factory and self.chance(0.25):
      self.meta['factory'] = True
      self.emit(0, 'def make(cv0, cv1):')
      self.emit(1, 'cv2 = cv0 + cv1')
      save_pool = self.varpool
      fc_lines = len(self.lines)
      self.function_closure('f', 1)
      self.emit(1, 'def getcv():')
      self.emit(2, 'return (cv0, cv1, cv2)')
      self.emit(1, 'return f, getcv')
      self.emit(0, 'f, getcv = make(3, 4)')
    else:
      self.function('f', 0)
    return PREAMBLE + '\n'.join(self.lines) + '\n'

  def function_closure(self, name, ind):
    """Function under test defined inside a factory: reads cv0/cv2, rebinds cv1."""
    fc = FnCtx(name, 0)
    fc.params = set(PARAMS)
    fc.localpool = list(self.varpool)
    self.emit(ind, 'def %s(%s):' % (name, SIG))
    self.emit(ind + 1, 'nonlocal cv1')
    blk = Block({'a', 'b', 'c', 'cv0', 'cv1', 'cv2'}, set())
    fc.nonlocals = {'cv1'}
    for v in self.varpool:
      if self.chance(0.55):
        self.emit(ind + 1, '%s = %s' % (v, self.rng.choice(['a', 'b', 'c', 'cv0', 'cv1 + 1', 'cv2'])))
        blk.defined.add(v)
    while fc.nstmts < self.p.max_stmts and not blk.dead:
      self.stmt(fc, blk, ind + 1, 0)
      if self.chance(0.08):
        break
    if not blk.dead:
      vs = sorted(blk.defined - {'a', 'b', 'c'} - set(fc.funcs))
      self.rng.shuffle(vs)
      self.emit(ind + 1, 'return (%s,)' % ', '.join(vs[:4] or ['a']))
    return fc


def _nonlocals_shadow(self):
  return set()


FnCtx.nonlocals_shadow = _nonlocals_shadow


def gen_module(seed, prof):
  g = Gen(seed, prof)
  src = g.module()
  return src, g.meta


def gen_inputs(seed, n):
  """n argument tuples as python source fragments (eval'd inside each module instance)."""
  rng = random.Random(str(seed) + '/inputs')
  out = []
  for _ in range(n):
    a = rng.choice([-2, 0, 1, 2, 3, 5])
    b = rng.choice([-1, 0, 1, 2, 4])
    c = rng.choice([0, 1, 3, 6])
    xs = [rng.choice([-3, 0, 1, 2, 4, 7]) for _ in range(rng.choice([0, 0, 1, 2, 3, 5]))]
    out.append('(%d, %d, %d, %r, Obj(%d, %d), {"k": %d, "m": %d, "k.m": %d, "k[0]": 0})' % (
        a, b, c, xs, rng.choice([0, 1, 2]), rng.choice([0, 5]), rng.choice([0, 1, 3]), rng.choice([-1, 2]), rng.choice([0, 4])))
  return out


def shape_signature(src, fname='f'):
  """Multiset of (construct kind, nesting depth) of the functions in the module
  that were generated (names f, g*), as a stable string."""
  tree = ast.parse(src)
  cnt = collections.Counter()
  kinds = (ast.If, ast.While, ast.For, ast.Try, ast.With, ast.FunctionDef, ast.Lambda,
           ast.Break, ast.Continue, ast.Return, ast.Raise, ast.IfExp, ast.BoolOp,
           ast.ListComp, ast.DictComp, ast.GeneratorExp, ast.Delete, ast.Global, ast.Nonlocal,
           ast.AugAssign)

  def walk(n, depth):
    for ch in ast.iter_child_nodes(n):
      d = depth
      if isinstance(ch, kinds):
        cnt[(type(ch).__name__, depth)] += 1
        if isinstance(ch, (ast.If, ast.While, ast.For, ast.Try, ast.With, ast.FunctionDef, ast.Lambda)):
          d = depth + 1
      walk(ch, d)

  for node in ast.walk(tree):
    if isinstance(node, ast.FunctionDef) and (node.name == fname or node.name.startswith('g') and node.name[1:].isdigit()):
      walk(node, 0)
  return ';'.join('%s@%d*%d' % (k[0], k[1], v) for k, v in sorted(cnt.items()))
