"""Enumerated closure programs: a variable written inside a control-flow body
and observed afterwards only through local functions (direct, indirect, alias,
lambda), including functions defined in branches and writers using nonlocal."""
import itertools

from vf.gen import grammar

CONSTRUCTS = {
    'if': 'if a > 0:\n    WRITE',
    'ifelse': 'if a > 0:\n    WRITE\nelse:\n    u = 1',
    'for': 'for i in xs:\n    WRITE',
    'while': 'w = 0\nwhile w < b:\n    w += 1\n    WRITE',
    'if_in_for': 'for i in xs:\n    if i > 0:\n        WRITE',
    'for_break': 'for i in xs:\n    if i > 2:\n        break\n    WRITE',
}
WRITES = {
    'plain': 'v = a + 5',
    'aug': 'v += 3',
    'tuple': 'v, u = a + 7, 2',
    'via_nonlocal_writer': 'u = setv(a + 9)',
}
ACCESS = {
    'direct': 'return (h(1),)',
    'indirect': 'return (g(1),)',
    'alias': 'return (k(2),)',
    'lambda': 'return ((lambda q: h(q))(3),)',
    'indirect_alias': 'return (k2(4),)',
}
DEF_PLACES = ['before', 'both_branches', 'in_loop_redefined', 'redefined_other_freevar', 'both_branches_other_freevar']


def indent(text, n=1):
  return '\n'.join('    ' * n + l for l in text.split('\n'))


def build(construct, write, access, place):
  L = ['def f(a, b, c, xs, o, d):', '    v = 0', '    u = 0']
  hdef = 'def h(p):\n    return p + v'
  if place == 'before':
    L.append(indent(hdef))
  elif place == 'both_branches':
    L.append(indent('if c > 0:\n    u = 2\n    u = u + 1\n' + indent(hdef) + '\nelse:\n' + indent('def h(p):\n    return p + v + 100')))
  elif place == 'in_loop_redefined':
    L.append(indent(hdef))
    L.append(indent('for j in range(2):\n    u = u + h(j)\n' + indent('def h(p):\n    return p + v + j')))
  elif place == 'redefined_other_freevar':
    # two local functions of the same name with different free variables; the first stays reachable through an alias
    L.append(indent(hdef))
    L.append(indent('hfirst = h'))
    L.append(indent('def h(p):\n    return p + u + 50'))
  else:
    L.append(indent('if c > 0:\n' + indent(hdef) + '\nelse:\n' + indent('def h(p):\n    return p + u + 100')))
  L.append(indent('def g(p):\n    return h(p) + 1'))
  L.append(indent('k = hfirst' if place == 'redefined_other_freevar' else 'k = h'))
  L.append(indent('k2 = g'))
  if write == 'via_nonlocal_writer':
    # only where it is used: a reaching function that declares v nonlocal keeps v live everywhere by itself
    L.append(indent('def setv(p):\n    nonlocal v\n    v = p\n    return p'))
  L.append(indent(CONSTRUCTS[construct].replace('WRITE', WRITES[write])))
  L.append(indent(ACCESS[access]))
  return '\n'.join(L) + '\n'


INPUTS = ['(1, 2, 1, [1, 3, 0], Obj(0, 0), {"k": 0, "m": 0})', '(0, 0, 0, [], Obj(0, 0), {"k": 0, "m": 0})',
          '(2, 1, 0, [0, 5], Obj(0, 0), {"k": 0, "m": 0})', '(-1, 3, 2, [2, 2, 2], Obj(0, 0), {"k": 0, "m": 0})']


def cases(pure=False):
  for c, w, a, p in itertools.product(sorted(CONSTRUCTS), sorted(WRITES), sorted(ACCESS), DEF_PLACES):
    if pure and (w == 'via_nonlocal_writer' or p not in ('before', 'redefined_other_freevar')):
      continue
    yield 'closure/%s/%s/%s/%s' % (c, w, a, p), grammar.PREAMBLE + build(c, w, a, p), INPUTS
