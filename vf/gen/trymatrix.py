"""Enumerated programs with two nested try statements (C05): every combination of
handler kinds, else / finally clauses, a loop outside, between or inside the
two levels, a statement after the inner try, and two conditional jumps (raise
of an Exception or of a BaseException that is not an Exception, break,
continue, return) placed in the inner body, the inner else clause or an inner
handler. Decision bits are the binary digits of the argument `a`, loop trip
counts the base-3 digits of `b`.
"""
import itertools
import random

from vf.gen import grammar

OUTER_HANDLERS = ['E1', 'Exception', 'BaseException', 'bare', 'B1', 'none']      # 'none' -> finally only
INNER_HANDLERS = ['none', 'E1', 'Exception', 'bare', 'E2']
LOOPS = ['none', 'between', 'outside', 'both', 'inside']
JUMPS = ['none', 'raiseE1', 'raiseB1', 'raiseE2', 'break', 'continue', 'return']
SITES = ['body', 'else', 'handler']


def hdr(kind):
  return 'except:' if kind == 'bare' else 'except %s:' % kind


def jump_src(j):
  return {'raiseE1': "raise E1('m')", 'raiseB1': "raise B1('m')", 'raiseE2': "raise E2('m', 1)",
          'break': 'break', 'continue': 'continue', 'return': 'return (v, 77)'}[j]


def build(oh, ofin, ih, ielse, ifin, loops, after, j1, s1, j2, s2):
  """Returns source or None if the combination is not valid Python / not meaningful."""
  in_loop_between = loops in ('between', 'both')
  in_loop_outside = loops in ('outside', 'both')
  in_loop_inside = loops == 'inside'
  any_loop = loops != 'none'
  for j, s in ((j1, s1), (j2, s2)):
    if j in ('break', 'continue') and not any_loop:
      return None
    if s == 'else' and not (ielse and ih != 'none'):
      return None
    if s == 'handler' and ih == 'none':
      return None
    if j == 'none' and s != 'body':
      return None
  if ielse and ih == 'none':
    return None
  if ih == 'none' and not ifin:
    return None          # a try needs a handler or a finally clause
  if oh == 'none' and not ofin:
    return None
  L = []
  emit = lambda ind, s: L.append('    ' * ind + s)
  emit(0, 'def f(a, b, c, xs, o, d):')
  emit(1, 'v = 0')
  ind = 1
  if in_loop_outside:
    emit(ind, 'for i0 in range(b % 3):')
    ind += 1
    emit(ind, 'v = v + 1')
  emit(ind, 'try:')
  ind += 1
  emit(ind, 'v = v + 10')
  base_between = ind
  if in_loop_between:
    emit(ind, 'for i1 in range((b // 3) % 3):')
    ind += 1
    emit(ind, 'v = v + 2')
  emit(ind, 'try:')
  ti = ind
  ind += 1
  if in_loop_inside:
    emit(ind, 'for i2 in range(b % 3):')
    ind += 1
  emit(ind, 'v = v + 100')
  bit = [0]

  def site(ind_, which):
    for j, s in ((j1, s1), (j2, s2)):
      if j != 'none' and s == which:
        emit(ind_, 'if (a >> %d) %% 2 == 1:' % bit[0])
        bit[0] += 1
        emit(ind_ + 1, jump_src(j))
        emit(ind_, "T('s%d', v)" % bit[0])

  site(ind, 'body')
  emit(ind, 'v = v + 200')
  ind = ti
  if ih != 'none':
    emit(ind, hdr(ih))
    emit(ind + 1, 'v = v + 1000')
    site(ind + 1, 'handler')
    emit(ind + 1, "T('ih', v)")
    if ielse:
      emit(ind, 'else:')
      emit(ind + 1, 'v = v + 2000')
      site(ind + 1, 'else')
      emit(ind + 1, "T('ie', v)")
  if ifin:
    emit(ind, 'finally:')
    emit(ind + 1, "T('if', 0)")
  if after:
    emit(ind, 'v = v + 5')
    emit(ind, "T('after_inner', v)")
  ind = base_between
  if in_loop_between and after:
    emit(ind, "T('after_loop', v)")
  ind -= 1
  if oh != 'none':
    emit(ind, hdr(oh))
    emit(ind + 1, 'v = v + 10000')
    emit(ind + 1, "T('oh', v)")
  if ofin:
    emit(ind, 'finally:')
    emit(ind + 1, "T('of', 0)")
  if in_loop_outside:
    emit(ind, "T('after_outer', v)")
  emit(1, 'return (v,)')
  return '\n'.join(L) + '\n', bit[0]


def all_cases():
  for oh, ofin, ih, ielse, ifin, loops, after in itertools.product(
      OUTER_HANDLERS, [False, True], INNER_HANDLERS, [False, True], [False, True], LOOPS, [False, True]):
    for (j1, s1), (j2, s2) in itertools.product(itertools.product(JUMPS, SITES), repeat=2):
      if (j1, s1) > (j2, s2) and j2 != 'none':
        continue    # unordered pair of jump sites is enough when both are present in the same clause order
      yield (oh, ofin, ih, ielse, ifin, loops, after, j1, s1, j2, s2)


def inputs_for(nbits):
  out = []
  for a in range(1 << nbits):
    for b in (0, 4, 8, 5):       # (b % 3, (b // 3) % 3) in {(0, 0), (1, 1), (2, 2), (2, 1)}
      out.append('(%d, %d, 0, [1, 2], Obj(0, 0), {"k": 0, "m": 0})' % (a, b))
  return out


def cases(seed, part, parts, tier):
  combos = [c for c in all_cases()]
  rng = random.Random('trymatrix/%d' % seed)
  rng.shuffle(combos)
  n = 4000 if tier == 'quick' else 60000
  k = 0
  for idx, combo in enumerate(combos):
    if idx % parts != part:
      continue
    built = build(*combo)
    if built is None:
      continue
    src, nbits = built
    try:
      compile(src, '<trym>', 'exec')
    except SyntaxError:
      continue       # e.g. break in a clause that is outside the only loop
    k += 1
    if k > n // parts:
      break
    cid = 'trym/%s' % '-'.join(str(x) for x in combo)
    yield cid, grammar.PREAMBLE + src, inputs_for(nbits)
