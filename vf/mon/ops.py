"""Operator-level monitors: wrappers installed on the real `ag__` module that
generated code calls into (DESIGN.md 2.4).

ContractMonitor (C03): checks the documented calling contract on every dynamic
operator invocation, then delegates to the real operator.
"""
import ast
import collections
import inspect
import sys


def ag_module():
  from malt.impl import api
  return api._TRANSPILER.get_extra_locals()['ag__']


class ContractViolation(Exception):
  pass


class Sentinel(object):
  """Value written by the write-then-read probe; tolerates attribute and item
  writes so that composite names whose base is itself a state variable work."""

  def __init__(self, i):
    object.__setattr__(self, '_i', i)
    object.__setattr__(self, '_items', {})

  def __setitem__(self, k, v):
    self._items[k] = v

  def __getitem__(self, k):
    return self._items[k]

  def __repr__(self):
    return '<sentinel %d>' % self._i


class PoisonRead(Exception):
  pass


def _poison_fail(self, *a, **k):
  raise PoisonRead('a value declared dead (beyond nouts / not in the state tuple) was used: %s' % object.__getattribute__(self, '_why'))


class Poison(object):
  """Stands for 'this value must never be observed'."""

  def __init__(self, why):
    object.__setattr__(self, '_why', why)

  def __repr__(self):
    raise PoisonRead('poison repr: %s' % object.__getattribute__(self, '_why'))

  __str__ = __repr__

  def __getattr__(self, name):
    if name.startswith('__') and name.endswith('__'):
      raise AttributeError(name)
    _poison_fail(self)


for _n in ('__add__', '__radd__', '__sub__', '__rsub__', '__mul__', '__rmul__', '__floordiv__',
           '__rfloordiv__', '__mod__', '__rmod__', '__neg__', '__pos__', '__abs__', '__lt__', '__le__',
           '__gt__', '__ge__', '__eq__', '__ne__', '__bool__', '__call__', '__iter__', '__len__',
           '__getitem__', '__setitem__', '__contains__', '__int__', '__index__', '__hash__',
           '__iadd__', '__isub__', '__imul__', '__and__', '__or__', '__rand__', '__ror__', '__truediv__',
           '__rtruediv__', '__pow__', '__rpow__', '__float__', '__setattr__'):
  setattr(Poison, _n, _poison_fail)


WRAPPED = ('if_stmt', 'while_stmt', 'for_stmt', 'if_exp', 'and_', 'or_', 'not_')


class ContractMonitor(object):

  def __init__(self, log_getter=None, expected_directives=None, poison_non_outputs=True):
    self.counters = collections.Counter()
    self.violations = []
    self.suspects = []      # decided by the caller once the outcome of the run is known
    self.log_getter = log_getter
    self.expected_directives = expected_directives  # marker -> {kw: value-as-source} or None
    self.poison_non_outputs = poison_non_outputs
    self._saved = {}
    self.ag = None
    self.generated_file_prefix = '__autograph_generated_file'
    self.samples = []

  # -- installation
  def install(self):
    self.ag = ag_module()
    from malt.operators import variables
    self.Undefined = variables.Undefined
    for name in WRAPPED:
      if not hasattr(self.ag, name):
        raise LookupError('hook point missing: ag__.%s' % name)
      self._saved[name] = getattr(self.ag, name)
      setattr(self.ag, name, self._make(name, self._saved[name]))
    return self

  def uninstall(self):
    for name, fn in self._saved.items():
      setattr(self.ag, name, fn)
    self._saved = {}

  def __enter__(self):
    return self.install()

  def __exit__(self, *a):
    self.uninstall()

  def _make(self, name, real):
    mon = self
    if name == 'if_stmt':
      def if_stmt(cond, body, orelse, get_state, set_state, symbol_names, nouts):
        fr = sys._getframe(1)
        mon.counters['if_stmt'] += 1
        mon._check_callbacks('if_stmt', {'body': (body, 0), 'orelse': (orelse, 0),
                                         'get_state': (get_state, 0), 'set_state': (set_state, 1)})
        mon._check_nouts(symbol_names, nouts)
        judged = mon._check_state('if_stmt', fr, get_state, set_state, symbol_names)
        r = real(cond, body, orelse, get_state, set_state, symbol_names, nouts)
        if judged == 2 and mon.poison_non_outputs and isinstance(nouts, int) and 0 <= nouts < len(symbol_names):
          mon._poison_tail(get_state, set_state, symbol_names, nouts)
        return r
      return if_stmt
    if name == 'while_stmt':
      def while_stmt(test, body, get_state, set_state, symbol_names, opts):
        fr = sys._getframe(1)
        mon.counters['while_stmt'] += 1
        mon._check_callbacks('while_stmt', {'test': (test, 0), 'body': (body, 0),
                                            'get_state': (get_state, 0), 'set_state': (set_state, 1)})
        mon._check_state('while_stmt', fr, get_state, set_state, symbol_names)
        mon._check_opts('while_stmt', fr, symbol_names, opts, None)
        return real(test, body, get_state, set_state, symbol_names, opts)
      return while_stmt
    if name == 'for_stmt':
      def for_stmt(iter_, extra_test, body, get_state, set_state, symbol_names, opts):
        fr = sys._getframe(1)
        mon.counters['for_stmt'] += 1
        cbs = {'body': (body, 1), 'get_state': (get_state, 0), 'set_state': (set_state, 1)}
        if extra_test is not None:
          cbs['extra_test'] = (extra_test, 0)
          mon.counters['for_stmt_with_extra_test'] += 1
        mon._check_callbacks('for_stmt', cbs)
        mon._check_state('for_stmt', fr, get_state, set_state, symbol_names)
        mon._check_opts('for_stmt', fr, symbol_names, opts, True)
        return real(iter_, extra_test, body, get_state, set_state, symbol_names, opts)
      return for_stmt
    if name == 'if_exp':
      def if_exp(cond, if_true, if_false, expr_repr):
        mon.counters['if_exp'] += 1
        mon._check_callbacks('if_exp', {'if_true': (if_true, 0), 'if_false': (if_false, 0)})
        if not isinstance(expr_repr, str):
          mon._bad('if_exp', 'expr_repr is %r, not a str' % type(expr_repr).__name__)
        return real(cond, if_true, if_false, expr_repr)
      return if_exp
    if name in ('and_', 'or_'):
      def lazy(a, b):
        mon.counters[name] += 1
        mon._check_callbacks(name, {'a': (a, 0), 'b': (b, 0)})
        return real(a, b)
      lazy.__name__ = name
      return lazy
    if name == 'not_':
      def not_(a):
        mon.counters['not_'] += 1
        return real(a)
      return not_
    raise KeyError(name)

  # -- checks
  def _bad(self, op, msg):
    self.counters['contract_violations'] += 1
    if len(self.violations) < 5:
      self.violations.append('%s: %s' % (op, msg))

  def _check_callbacks(self, op, cbs):
    for nm, (fn, arity) in cbs.items():
      if not callable(fn):
        self._bad(op, '%s is not callable: %r' % (nm, fn))
        continue
      try:
        sig = inspect.signature(fn)
      except (TypeError, ValueError):
        continue
      params = [p for p in sig.parameters.values()]
      req = [p for p in params if p.default is p.empty and p.kind in (p.POSITIONAL_ONLY, p.POSITIONAL_OR_KEYWORD)]
      if len(req) != arity or any(p.kind in (p.VAR_POSITIONAL, p.VAR_KEYWORD, p.KEYWORD_ONLY) for p in params) \
          or len(params) != arity:
        self._bad(op, '%s takes %s, contract says exactly %d positional parameter(s)' % (nm, sig, arity))
      self.counters['callbacks_checked'] += 1

  def _check_nouts(self, symbol_names, nouts):
    if not isinstance(nouts, int) or isinstance(nouts, bool) or not (0 <= nouts <= len(symbol_names)):
      self._bad('if_stmt', 'nouts=%r out of bounds for %d symbols' % (nouts, len(symbol_names)))

  def _frame_eval(self, fr, name):
    return eval(name, fr.f_globals, fr.f_locals)  # pylint:disable=eval-used

  def _check_state(self, op, fr, get_state, set_state, symbol_names):
    """Clauses 1-5 of the C03 monitor. Returns True when the invocation was judged."""
    if not isinstance(symbol_names, tuple) or not all(isinstance(s, str) for s in symbol_names):
      self._bad(op, 'symbol_names is %r' % (symbol_names,))
      return False
    if len(set(symbol_names)) != len(symbol_names):
      self._bad(op, 'duplicate names in %r' % (symbol_names,))
    log0 = len(self.log_getter()) if self.log_getter else 0
    try:
      st1 = get_state()
    except NameError as e:
      # legitimate only if a simple state variable really is unbound right now
      unbound = []
      for n in symbol_names:
        if n.isidentifier():
          try:
            self._frame_eval(fr, n)
          except NameError:
            unbound.append(n)
      if unbound:
        self.counters['unbound_state_not_judged'] += 1
        return False
      self._bad(op, 'get_state() raised %r although every simple state variable is bound' % (e,))
      return False
    except Exception as e:  # pylint:disable=broad-except
      self._bad(op, 'get_state() raised %s: %s' % (type(e).__name__, e))
      return False
    if not isinstance(st1, tuple):
      self._bad(op, 'get_state() returned %s' % type(st1).__name__)
      return False
    if len(st1) != len(symbol_names):
      self._bad(op, 'len(get_state())=%d but len(symbol_names)=%d %r' % (len(st1), len(symbol_names), symbol_names))
      return False
    self.counters['state_invocations_judged'] += 1
    self.counters['state_entries_judged'] += len(st1)
    # 2a. a composite state symbol (o.p, d['k'], a[i.j]) denotes a variable of the enclosing function only if the
    # names it is built from are bound when the operator is entered
    for n in symbol_names:
      if n.isidentifier():
        continue
      try:
        support = sorted({x.id for x in ast.walk(ast.parse(n, mode='eval')) if isinstance(x, ast.Name)})
      except SyntaxError:
        continue
      for sname in support:
        try:
          sv = self._frame_eval(fr, sname)
        except NameError:
          sv = None
          unbound_now = True
        else:
          unbound_now = isinstance(sv, self.Undefined)
        if unbound_now:
          self.suspects.append('%s: state symbol %r is built from %r, which is unbound when the operator is entered (names %r)' % (
              op, n, sname, symbol_names))
    # 2. position-by-position denotation
    has_undef_composite = False
    for i, n in enumerate(symbol_names):
      try:
        v = self._frame_eval(fr, n)
      except (NameError, AttributeError, KeyError, IndexError):
        if not isinstance(st1[i], self.Undefined):
          self._bad(op, 'position %d: %r is not evaluable in the calling frame but get_state() gives %r' % (i, n, type(st1[i]).__name__))
        if not n.isidentifier():
          has_undef_composite = True
        continue
      except Exception:  # pylint:disable=broad-except
        continue
      if isinstance(st1[i], self.Undefined) and not n.isidentifier():
        has_undef_composite = True
      if v is not st1[i] and not (isinstance(st1[i], self.Undefined) and isinstance(v, self.Undefined)):
        self._bad(op, 'position %d: name %r denotes %r in the calling frame but get_state()[%d] is %r (names %r)' % (
            i, n, _short(v), i, _short(st1[i]), symbol_names))
    # 3. reading has no effect; writing back what was read changes nothing
    st2 = get_state()
    if len(st2) != len(st1) or any(a is not b for a, b in zip(st1, st2)
                                   if not isinstance(a, self.Undefined)):
      self._bad(op, 'two consecutive get_state() calls differ')
    if self.log_getter and len(self.log_getter()) != log0:
      self._bad(op, 'get_state() produced side effects (LOG grew)')
    if has_undef_composite:
      self.counters['probe_skipped_undefined_composite'] += 1
      return 1
    try:
      set_state(st1)
    except Exception as e:  # pylint:disable=broad-except
      self._bad(op, 'set_state(get_state()) raised %s: %s' % (type(e).__name__, e))
      return True
    st3 = get_state()
    if any(a is not b for a, b in zip(st1, st3) if not isinstance(a, self.Undefined)):
      self._bad(op, 'set_state(get_state()) changed the state: %r' % (symbol_names,))
    # 4. write-then-read with sentinels
    sent = tuple(Sentinel(i) for i in range(len(st1)))
    try:
      set_state(sent)
      back = get_state()
      ok = len(back) == len(sent) and all(a is b for a, b in zip(back, sent))
      if not ok:
        self._bad(op, 'write-then-read: wrote %d sentinels to %r, read back %r' % (
            len(sent), symbol_names, [_short(x) for x in back]))
      else:
        for i, n in enumerate(symbol_names):
          try:
            v = self._frame_eval(fr, n)
          except Exception as e:  # pylint:disable=broad-except
            self._bad(op, 'after set_state, %r not evaluable in the calling frame: %r' % (n, e))
            continue
          if v is not sent[i]:
            self._bad(op, 'after set_state, name %r (position %d) denotes %s, not the value written at its position (names %r)' % (
                n, i, _short(v), symbol_names))
      self.counters['sentinel_probes'] += 1
    finally:
      set_state(st1)
    if self.log_getter and len(self.log_getter()) != log0:
      self._bad(op, 'state functions produced side effects (LOG grew)')
    if len(self.samples) < 3 and len(symbol_names) >= 2:
      self.samples.append({'op': op, 'symbol_names': list(symbol_names), 'state': [_short(x) for x in st1]})
    return 2

  def _poison_tail(self, get_state, set_state, symbol_names, nouts):
    try:
      st = list(get_state())
    except Exception:  # pylint:disable=broad-except
      return
    for i in range(nouts, len(st)):
      st[i] = Poison('%s is at position %d >= nouts=%d of %r' % (symbol_names[i], i, nouts, symbol_names))
    set_state(tuple(st))
    self.counters['non_outputs_poisoned'] += len(st) - nouts

  def _check_opts(self, op, fr, symbol_names, opts, is_for):
    if not isinstance(opts, dict):
      self._bad(op, 'opts is %r' % type(opts).__name__)
      return
    self.counters['loop_opts_checked'] += 1
    keys = set(opts)
    if is_for:
      if 'iterate_names' not in opts or not isinstance(opts['iterate_names'], str):
        self._bad(op, "for_stmt opts lack a string 'iterate_names': %r" % (opts,))
      keys.discard('iterate_names')
    if self.expected_directives is None:
      return
    # identify the loop by its marker: iterate names for `for`, counter variable for `while`
    allm = self.expected_directives['__all_markers__']
    amb = self.expected_directives['__ambiguous__']
    if is_for:
      marker = ' '.join(str(opts.get('iterate_names', '')).replace('(', ' ').replace(')', ' ').replace(',', ' ').split())
      if marker not in allm or marker in amb:
        return  # a loop of a callee/helper we hold no record for
    else:
      # counters of loops nested in this one may be in the state too; they are
      # created later, so this loop's own counter has the smallest number.
      ws = [n for n in symbol_names if n in allm and n[:1] == 'w' and n[1:].isdigit()]
      if not ws:
        return
      marker = min(ws, key=lambda n: int(n[1:]))
    exp = self.expected_directives.get(marker)
    exp = exp or {}
    if keys != set(exp):
      self._bad(op, 'loop options carry directives %r, the user placed %r in this loop' % (sorted(keys), sorted(exp)))
      return
    for k in keys:
      want = eval(exp[k])  # pylint:disable=eval-used
      if opts[k] != want:
        self._bad(op, 'directive %s=%r, user wrote %r' % (k, opts[k], want))
    if exp:
      self.counters['directive_loops_checked'] += 1


def _short(v):
  try:
    r = repr(v)
  except Exception:  # pylint:disable=broad-except
    r = '<%s>' % type(v).__name__
  return r[:60]
