"""C04 monitors: static scan of every emitted module and dynamic tracer values.

Artifact scan: the text handed to loader.load_source is parsed with CPython's
parser; inside the generated function no native instance of an overloadable
construct may survive outside the documented contexts.

Tracer values: int-like values whose __bool__/__iter__ (and a tracer callee)
look at the frame that triggered them. A frame of a generated module means a
native if/while/and/or/not/ternary/chained-compare/for/call executed in
converted code; frames under malt/ are the operators themselves.
"""
import ast
import os
import re
import sys

GEN_PREFIX = '__autograph_generated_file'
SCOPE_RE = re.compile(r'^(f|l)scope(_\d+)?$')


def is_generated(filename):
  return os.path.basename(filename or '').startswith(GEN_PREFIX)


def _parents(tree):
  par = {}
  for n in ast.walk(tree):
    for ch in ast.iter_child_nodes(n):
      par[id(ch)] = n
  return par


def _in_exempt_context(node, par):
  """comprehension clauses (target/iter/ifs) and with-item expressions."""
  cur = node
  while id(cur) in par:
    p = par[id(cur)]
    if isinstance(p, ast.comprehension):
      return 'comprehension clause'
    if isinstance(p, ast.withitem):
      return 'with item'
    cur = p
  return None


def _unwrap_ld(func):
  """ag__.ld(x) is a read of x: a call through it is a native call of x."""
  while (isinstance(func, ast.Call) and isinstance(func.func, ast.Attribute) and
         isinstance(func.func.value, ast.Name) and func.func.value.id == 'ag__' and
         func.func.attr == 'ld' and len(func.args) == 1):
    func = func.args[0]
  return func


def _root_name(func):
  func = _unwrap_ld(func)
  while isinstance(func, ast.Attribute):
    func = _unwrap_ld(func.value)
  if isinstance(func, ast.Name):
    return func.id
  return None


def _root_name_old(func):
  while isinstance(func, ast.Attribute):
    func = func.value
  if isinstance(func, ast.Name):
    return func.id
  if isinstance(func, ast.Call):
    return _root_name(func.func)
  return None


def _full_name(func):
  parts = []
  func = _unwrap_ld(func)
  while isinstance(func, ast.Attribute):
    parts.append(func.attr)
    func = _unwrap_ld(func.value)
  if isinstance(func, ast.Name):
    parts.append(func.id)
    return '.'.join(reversed(parts))
  return None


def _is_positional_packing(n, par):
  """Is `n` (a tuple(...) call) part of the positional-argument operand of an ag__.converted_call?"""
  cur = n
  p = par.get(id(cur))
  while isinstance(p, ast.BinOp) and isinstance(p.op, ast.Add):
    cur, p = p, par.get(id(p))
  return (isinstance(p, ast.Call) and _full_name(p.func) == 'ag__.converted_call' and len(p.args) > 1 and
          p.args[1] is cur)


def scan_module(source, builtin_functions_on):
  """Returns (problems, counts) for one emitted module."""
  tree = ast.parse(source)
  par = _parents(tree)
  probs = []
  counts = {'nodes_scanned': 0, 'calls_scanned': 0, 'exempt_nodes': 0}
  for n in ast.walk(tree):
    counts['nodes_scanned'] += 1
    what = None
    if isinstance(n, (ast.If, ast.While, ast.For, ast.Break, ast.Continue)):
      what = 'native %s statement' % type(n).__name__.lower()
    elif isinstance(n, ast.IfExp):
      what = 'native conditional expression'
    elif isinstance(n, ast.BoolOp):
      what = 'native %s' % ('and' if isinstance(n.op, ast.And) else 'or')
    elif isinstance(n, ast.UnaryOp) and isinstance(n.op, ast.Not):
      what = 'native not'
    elif isinstance(n, ast.Compare) and len(n.ops) > 1:
      what = 'native chained comparison'
    elif isinstance(n, ast.Return):
      # only the epilogue return of each generated function may remain
      p = par.get(id(n))
      ok = False
      if isinstance(p, (ast.FunctionDef, ast.Lambda)):
        ok = p.body[-1] is n
      elif isinstance(p, ast.With):
        pp = par.get(id(p))
        ok = p.body[-1] is n and isinstance(pp, ast.FunctionDef) and any(
            isinstance(it.context_expr, ast.Call) and _full_name(it.context_expr.func) == 'ag__.FunctionScope'
            for it in p.items)
      if not ok:
        what = 'native early return'
    elif isinstance(n, ast.Call):
      counts['calls_scanned'] += 1
      root = _root_name(n.func)
      full = _full_name(n.func)
      if root == 'ag__':
        continue
      if isinstance(n.func, ast.Attribute) and isinstance(n.func.value, ast.Name) and SCOPE_RE.match(n.func.value.id):
        continue
      if isinstance(n.func, ast.Lambda):
        continue
      if isinstance(n.func, ast.Name) and n.func.id == 'dict' and not n.args:
        continue   # keyword packing emitted by the converter
      if isinstance(n.func, ast.Name) and n.func.id == 'tuple' and _is_positional_packing(n, par):
        continue   # *args packing emitted by the converter: converted_call(f, (a,) + tuple(args), ...)
      if full in ('pdb.set_trace', 'ipdb.set_trace', 'breakpoint'):
        counts['exempt_nodes'] += 1
        continue
      if full == 'print' and not builtin_functions_on:
        counts['exempt_nodes'] += 1
        continue
      # the two factory functions of the wrapper module
      p = par.get(id(n))
      what = 'native call %s(...)' % (full or ast.unparse(n.func)[:30])
    if what is None:
      continue
    ex = _in_exempt_context(n, par)
    if ex:
      counts['exempt_nodes'] += 1
      continue
    probs.append('%s survives in generated code at line %d: %s' % (
        what, getattr(n, 'lineno', 0), ast.unparse(n).split('\n')[0][:100]))
  return probs, counts


# ---- dynamic side -------------------------------------------------------------
TRACER_SRC = r'''
import sys as _sys, os as _os
NATIVE = []          # (kind, filename, lineno, (l, el, c, ec))
TRACER_EVENTS = {'bool': 0, 'iter': 0, 'call': 0}
def _origin(kind, depth=2):
    fr = _sys._getframe(depth)
    TRACER_EVENTS[kind] += 1
    fn = fr.f_code.co_filename
    if _os.path.basename(fn).startswith('__autograph_generated_file'):
        pos = None
        try:
            pos = list(fr.f_code.co_positions())[fr.f_lasti // 2]
        except Exception:
            pass
        NATIVE.append((kind, fn, fr.f_lineno, pos))
class Tr(object):
    """int-like tracer value"""
    __slots__ = ('v',)
    def __init__(self, v):
        self.v = v.v if isinstance(v, Tr) else v
    def __bool__(self):
        _origin('bool')
        return bool(self.v)
    def __index__(self):
        return int(self.v)
    def __int__(self):
        return int(self.v)
    def __hash__(self):
        return hash(self.v)
    def __repr__(self):
        return repr(self.v)
    def __abs__(self): return Tr(abs(self.v))
    def __neg__(self): return Tr(-self.v)
    def __pos__(self): return Tr(+self.v)
    def __invert__(self): return Tr(~self.v)
def _u(x):
    return x.v if isinstance(x, Tr) else x
def _mk(op, rev=False):
    import operator as _op
    f = getattr(_op, op)
    if rev:
        return lambda s, o: Tr(f(_u(o), s.v))
    return lambda s, o: Tr(f(s.v, _u(o)))
for _n in ('add', 'sub', 'mul', 'floordiv', 'mod', 'and_', 'or_', 'xor', 'lshift', 'rshift', 'pow', 'truediv'):
    _d = _n.rstrip('_')
    setattr(Tr, '__%s__' % _d, _mk(_n))
    setattr(Tr, '__r%s__' % _d, _mk(_n, True))
for _n in ('lt', 'le', 'gt', 'ge', 'eq', 'ne'):
    setattr(Tr, '__%s__' % _n, _mk(_n))
class TrSeq(list):
    """list of tracers whose iteration is observed"""
    def __iter__(self):
        _origin('iter')
        return list.__iter__(self)
exec(compile("""
def T(tag, v=None):
    _origin('call')
    if len(LOG) > 20000:
        raise _Overflow()
    LOG.append(('T', tag, _r(v)))
    return v
""", '<string>', 'exec'))
'''


def classify_native(events, source_cache):
  """Maps NATIVE events to (violations, exempt_count, unclassified_count)."""
  viol, exempt, unknown = [], 0, 0
  memo = source_cache.setdefault('__verdicts__', {})
  for kind, fn, lineno, pos in events:
    # the same instruction fires many times in loops: classify each (kind, file, position) once
    key = (kind, fn, lineno, tuple(pos) if pos is not None else None)
    if key in memo:
      v = memo[key]
      if v == 'exempt':
        exempt += 1
      elif v == 'unknown':
        unknown += 1
      else:
        viol.append(v)
      continue
    before = (len(viol), exempt, unknown)
    _classify_one(kind, fn, lineno, pos, source_cache, viol, counts := [0, 0])
    exempt += counts[0]
    unknown += counts[1]
    memo[key] = viol[-1] if len(viol) > before[0] else ('exempt' if counts[0] else 'unknown')
  return viol, exempt, unknown


def _classify_one(kind, fn, lineno, pos, source_cache, viol, counts):
  exempt = unknown = 0
  for _once in (0,):
    if fn not in source_cache:
      try:
        with open(fn) as f:
          src = f.read()
        tree = ast.parse(src)
        source_cache[fn] = (src, tree, _parents(tree))
      except (OSError, SyntaxError):
        source_cache[fn] = None
    ent = source_cache[fn]
    if ent is None or pos is None or pos[0] is None:
      unknown += 1
      continue
    src, tree, par = ent
    l, el, c, ec = pos
    # innermost node whose extent equals / contains the instruction's position
    best = None
    for n in ast.walk(tree):
      if not hasattr(n, 'lineno') or not hasattr(n, 'end_lineno'):
        continue
      if (n.lineno, n.col_offset) <= (l, c) and (n.end_lineno, n.end_col_offset) >= (el, ec):
        if best is None or (n.lineno, n.col_offset, -n.end_lineno, -n.end_col_offset) >= (
            best.lineno, best.col_offset, -best.end_lineno, -best.end_col_offset):
          best = n
    if best is None:
      unknown += 1
      continue
    if _in_exempt_context(best, par) or isinstance(best, ast.comprehension):
      exempt += 1
      continue
    chain = [best]
    cur = best
    while id(cur) in par and len(chain) < 4:
      cur = par[id(cur)]
      chain.append(cur)
    text = ast.unparse(chain[0]).split('\n')[0][:80]
    if kind == 'bool':
      hit = None
      for n in chain[:3]:
        if isinstance(n, ast.Assert):
          hit = 'exempt'
          break
        if isinstance(n, ast.Compare) and any(isinstance(o, (ast.In, ast.NotIn)) for o in n.ops) and len(n.ops) == 1:
          hit = 'exempt'
          break
        if isinstance(n, (ast.If, ast.While, ast.IfExp, ast.BoolOp)) or (
            isinstance(n, ast.UnaryOp) and isinstance(n.op, ast.Not)) or (
                isinstance(n, ast.Compare) and len(n.ops) > 1):
          hit = 'native %s evaluated a tracer truth value' % type(n).__name__
          break
      if hit == 'exempt':
        exempt += 1
      elif hit:
        viol.append('%s in generated code, line %d: %s' % (hit, lineno, text))
      else:
        unknown += 1
    elif kind == 'iter':
      hit = None
      for n in chain[:3]:
        if isinstance(n, ast.For):
          hit = 'native for statement iterated a tracer sequence'
          break
        if isinstance(n, (ast.Starred, ast.Assign, ast.Call)):
          hit = 'exempt'
          break
      if hit == 'exempt':
        exempt += 1
      elif hit:
        viol.append('%s in generated code, line %d: %s' % (hit, lineno, text))
      else:
        unknown += 1
    else:
      viol.append('tracer callee called natively from generated code, line %d: %s' % (lineno, text))
  counts[0], counts[1] = exempt, unknown
