"""Tracing-style operator backend (C02, DESIGN.md 3/C02).

Replaces ag__.if_stmt / while_stmt / for_stmt by implementations that touch
the enclosing function's variables only through get_state/set_state:

* if_stmt runs BOTH branches from the same initial state, keeps the state of
  the chosen one for the first `nouts` entries and poisons the rest;
* loops run the body once out of band (also for zero-trip loops), reset the
  state, then re-inject the carried state before every test/extra_test/body.

A variable that a branch or body changes and that is observable later but is
missing from the state tuple therefore shows up as a wrong result or as a
PoisonRead when compared with the unconverted function.
"""
import collections

from vf.mon import ops


def _dummy_for_pattern(names):
  """A placeholder item that unpacks into the loop's target pattern (given as text in iterate_names)."""
  import ast

  def build(t):
    if isinstance(t, (ast.Tuple, ast.List)):
      out = []
      for e in t.elts:
        if isinstance(e, ast.Starred):
          out.extend([0, 0])
        else:
          out.append(build(e))
      return tuple(out)
    return 0

  try:
    tgt = ast.parse('%s = None' % names).body[0].targets[0]
  except SyntaxError:
    return 0
  return build(tgt)


class TracingBackend(object):

  def __init__(self):
    self.counters = collections.Counter()
    self._saved = {}
    self.ag = None
    self.samples = []

  def install(self):
    self.ag = ops.ag_module()
    for name in ('if_stmt', 'while_stmt', 'for_stmt'):
      if not hasattr(self.ag, name):
        raise LookupError('hook point missing: ag__.%s' % name)
      self._saved[name] = getattr(self.ag, name)
    self.ag.if_stmt = self.if_stmt
    self.ag.while_stmt = self.while_stmt
    self.ag.for_stmt = self.for_stmt
    return self

  def uninstall(self):
    for name, fn in self._saved.items():
      setattr(self.ag, name, fn)
    self._saved = {}

  def __enter__(self):
    return self.install()

  def __exit__(self, *a):
    self.uninstall()

  # ---- conditional
  def if_stmt(self, cond, body, orelse, get_state, set_state, symbol_names, nouts):
    self.counters['if_stmt'] += 1
    init = get_state()
    taken = bool(cond)
    states = {}
    for is_body, branch in ((True, body), (False, orelse)):
      try:
        branch()
        states[is_body] = get_state()
      except NameError:
        # The branch whose result is discarded runs from a state it cannot have in a real execution (e.g. the code
        # guarded by `not continue_` after the branch that did not bind a variable): a read of an unbound variable
        # there says nothing about the state tuple. In the branch that is kept it does.
        if is_body == taken:
          raise
        self.counters['discarded_branch_read_unbound'] += 1
      set_state(init)
    self.counters['branches_traced'] += 2
    chosen = states[taken]
    final = list(chosen[:nouts])
    for i in range(nouts, len(chosen)):
      final.append(ops.Poison('%s is at position %d >= nouts=%d of %r' % (symbol_names[i], i, nouts, symbol_names)))
      self.counters['poison_writes'] += 1
    set_state(tuple(final))
    if len(self.samples) < 3 and len(symbol_names) >= 2:
      self.samples.append({'op': 'if_stmt', 'symbol_names': list(symbol_names), 'nouts': nouts})

  # ---- loops
  def while_stmt(self, test, body, get_state, set_state, symbol_names, opts):
    self.counters['while_stmt'] += 1
    init = get_state()
    # out-of-band trace
    test()
    body()
    self.counters['out_of_band_traces'] += 1
    set_state(init)
    carried = init
    n = 0
    while True:
      set_state(carried)
      if not test():
        break
      set_state(carried)
      body()
      carried = get_state()
      self.counters['state_reinjections'] += 2
      n += 1
      if n > 100000:
        raise RuntimeError('tracing backend: loop does not terminate')
    set_state(carried)

  def for_stmt(self, iter_, extra_test, body, get_state, set_state, symbol_names, opts):
    self.counters['for_stmt'] += 1
    init = get_state()
    items = list(iter_)
    names = str(opts.get('iterate_names', 'i'))
    if items:
      dummy = items[0]
    else:
      dummy = _dummy_for_pattern(names)
      self.counters['zero_trip_for_traced'] += 1
    if extra_test is not None:
      extra_test()
    body(dummy)
    self.counters['out_of_band_traces'] += 1
    set_state(init)
    carried = init
    for it in items:
      set_state(carried)
      if extra_test is not None and not extra_test():
        break
      set_state(carried)
      body(it)
      carried = get_state()
      self.counters['state_reinjections'] += 2
    set_state(carried)
