"""Dual-instance differential runner (DESIGN.md 2.2).

The same source file is imported twice under two module names: instance O runs
the original function, instance C the converted one (a converted function
shares __globals__ and closure cells with its original, so one module would
let the runs contaminate each other).
"""
import copy
import importlib.util
import os
import sys
import signal

_counter = [0]


def scratch_dir():
  d = os.environ.get('VERIF_SCRATCH') or os.environ.get('TMPDIR') or '.'
  return d


def load_instance(src, tag):
  """Writes src to a fresh file and imports it under a fresh module name."""
  _counter[0] += 1
  name = 'vfm_%s_%d_%d' % (tag, os.getpid(), _counter[0])
  path = os.path.join(scratch_dir(), name + '.py')
  with open(path, 'w') as f:
    f.write(src)
  spec = importlib.util.spec_from_file_location(name, path)
  m = importlib.util.module_from_spec(spec)
  sys.modules[name] = m
  spec.loader.exec_module(m)
  return m


def unload(m):
  sys.modules.pop(m.__name__, None)
  try:
    os.unlink(m.__file__)
  except OSError:
    pass


def canon(v, depth=0):
  """Canonical, NaN-safe, identity-free representation."""
  if depth > 6:
    return '<deep>'
  if type(v).__name__ == 'Poison':
    return '<POISON>'
  if isinstance(v, (int, bool, str, bytes, type(None))):
    return repr(v)
  if isinstance(v, float):
    return repr(v)
  if isinstance(v, (list, tuple)):
    return '%s[%s]' % (type(v).__name__, ', '.join(canon(x, depth + 1) for x in v))
  if isinstance(v, dict):
    try:
      items = sorted(v.items(), key=lambda kv: repr(kv[0]))
    except Exception:  # pylint:disable=broad-except
      items = list(v.items())
    return 'dict{%s}' % ', '.join('%s: %s' % (canon(k, depth + 1), canon(x, depth + 1)) for k, x in items)
  if isinstance(v, (set, frozenset)):
    return '%s{%s}' % (type(v).__name__, ', '.join(sorted(canon(x, depth + 1) for x in v)))
  if isinstance(v, type):
    return '<class %s>' % v.__name__
  if callable(v) and not hasattr(v, 'p'):
    return '<callable>'
  if type(v).__name__ == 'Obj':
    return 'Obj(%s)' % ', '.join('%s=%s' % (k, canon(x, depth + 1)) for k, x in sorted(v.__dict__.items()))
  if isinstance(v, BaseException):
    return '<exc %s>' % type(v).__name__
  r = type(v).__name__
  return '<%s>' % r


def exc_class(e):
  """Class name with NameError subclasses merged (C01 tolerance)."""
  t = type(e)
  if issubclass(t, NameError):
    return 'NameError'
  return t.__name__


class Timeout(BaseException):
  pass


def _alarm(signum, frame):
  raise Timeout()


def run(fn, module, args_src, timeout=6, unwrap_convert=False, glob_names=('G1', 'G2', 'zG3', 'NL')):
  """Runs fn(*args) where args are built inside `module`. Returns an outcome dict."""
  del module.LOG[:]
  args = eval(args_src, module.__dict__)  # pylint:disable=eval-used
  old = signal.signal(signal.SIGALRM, _alarm)
  signal.setitimer(signal.ITIMER_REAL, timeout, 0.5)
  out = {}
  try:
    try:
      rv = fn(*args)
      out['kind'] = 'ret'
      out['value'] = canon(rv)
    except Timeout:
      out['kind'] = 'timeout'
      out['value'] = None
    except RecursionError:
      out['kind'] = 'exc'
      out['value'] = 'RecursionError'
    except Exception as e:  # pylint:disable=broad-except
      src_e = e
      if unwrap_convert and hasattr(e, 'ag_error_metadata') and e.__context__ is not None \
          and hasattr(e.__context__, 'ag_error_metadata'):
        src_e = e.__context__
      out['kind'] = 'exc'
      out['value'] = exc_class(src_e)
      out['exc_text'] = str(e)[:300]
    except BaseException as e:  # pylint:disable=broad-except
      if type(e).__name__ == '_Overflow':
        out['kind'] = 'overflow'
        out['value'] = 'more than 20000 side-effect events'
      elif type(e).__name__ == 'B1':
        # the subject's own BaseException subclass
        out['kind'] = 'exc'
        out['value'] = 'B1'
        out['exc_text'] = str(e)[:300]
      else:
        raise
  finally:
    signal.setitimer(signal.ITIMER_REAL, 0, 0)
    signal.signal(signal.SIGALRM, old)
  out['args'] = canon(args)
  out['globals'] = canon([module.__dict__.get(g) for g in glob_names])
  if hasattr(module, 'getcv'):
    try:
      out['closure'] = canon(module.getcv())
    except Exception as e:  # pylint:disable=broad-except
      out['closure'] = '<err %s>' % type(e).__name__
  out['log'] = [list(x) for x in module.LOG]
  return out


def compare(o, c):
  """Returns None when outcomes agree under the C01 rules, else a description."""
  if o['kind'] in ('timeout', 'overflow'):
    return None   # reference did not finish: nothing to compare (counted by the caller)
  if c['kind'] == 'timeout':
    return None   # wall-clock watchdog: inconclusive for this input, never a verdict (counted by the caller)
  if c['kind'] == 'overflow':
    return 'original finished (%s %s) but the converted function produced more than 20000 side-effect events (does not terminate)' % (
        o['kind'], o['value'])
  if o['kind'] != c['kind']:
    return 'original %s %s, converted %s %s [%s]' % (
        o['kind'], o['value'], c['kind'], c['value'], c.get('exc_text', ''))
  if o['value'] != c['value']:
    return 'original %s %s, converted %s %s [%s]' % (
        o['kind'], o['value'], c['kind'], c['value'], c.get('exc_text', ''))
  if o['log'] != c['log']:
    n = 0
    while n < min(len(o['log']), len(c['log'])) and o['log'][n] == c['log'][n]:
      n += 1
    return 'side-effect log differs at event %d: original %r, converted %r (lengths %d/%d)' % (
        n, o['log'][n:n + 2], c['log'][n:n + 2], len(o['log']), len(c['log']))
  for k in ('args', 'globals', 'closure'):
    if o.get(k) != c.get(k):
      return '%s post-state differs: original %s, converted %s' % (k, o.get(k), c.get(k))
  return None
