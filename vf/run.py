"""Driver: ./check <ID> [--tier quick|thorough] [--replay path].

Spawns worker subprocesses (never multiprocessing.Pool), collects one JSON
result per case, classifies violations against known_findings.json, writes
evidence/<id>.json and exits 0 (held on what was observed), 1 (violation,
with a VIOLATION line) or 2 (inconclusive).
"""
import argparse
import collections
import concurrent.futures
import importlib
import json
import os
import shutil
import subprocess
import sys
import tempfile
import time

ROOT = os.path.dirname(os.path.dirname(os.path.abspath(__file__)))
MARK = '@@R '


def _load(pid):
  return importlib.import_module('vf.props.' + pid.lower())


def _worker_cmd(pid, spec_path):
  return [sys.executable, '-m', 'vf.worker', pid, spec_path]


def _run_worker(pid, spec, workdir, timeout, idx):
  """Runs one slice in a child process. Returns (results, error_or_None)."""
  sdir = os.path.join(workdir, 'w%d' % idx)
  os.makedirs(sdir, exist_ok=True)
  spec_path = os.path.join(sdir, 'spec.json')
  with open(spec_path, 'w') as f:
    json.dump(spec, f)
  env = dict(os.environ)
  env['TMPDIR'] = sdir
  env['PYTHONHASHSEED'] = str(spec.get('hashseed', 0))
  env['VERIF_SCRATCH'] = sdir
  for attempt in range(2):
    results = []
    err = None
    try:
      p = subprocess.run(
          _worker_cmd(pid, spec_path), env=env, cwd=ROOT, timeout=timeout,
          stdout=subprocess.PIPE, stderr=subprocess.PIPE)
      out = p.stdout.decode('utf-8', 'replace')
      for line in out.splitlines():
        if line.startswith(MARK):
          try:
            results.append(json.loads(line[len(MARK):]))
          except ValueError:
            pass
      done = any(r.get('_done') for r in results)
      if p.returncode != 0 or not done:
        err = 'worker exit %s: %s' % (
            p.returncode, p.stderr.decode('utf-8', 'replace')[-2000:])
    except subprocess.TimeoutExpired as e:
      err = 'worker timeout after %ss' % timeout
      out = (e.stdout or b'').decode('utf-8', 'replace')
      for line in out.splitlines():
        if line.startswith(MARK):
          try:
            results.append(json.loads(line[len(MARK):]))
          except ValueError:
            pass
    if err is None:
      break
    # A violation already reported stands even if the worker later died.
    if any(r.get('verdict') == 'violation' for r in results):
      break
  shutil.rmtree(sdir, ignore_errors=True)
  return [r for r in results if not r.get('_done')], err


def load_known(pid):
  path = os.path.join(ROOT, 'known_findings.json')
  if not os.path.exists(path):
    return []
  with open(path) as f:
    data = json.load(f)
  return [e for e in data.get('findings', []) if e.get('property') == pid]


def main(argv=None):
  ap = argparse.ArgumentParser()
  ap.add_argument('pid')
  ap.add_argument('--tier', default=os.environ.get('VERIF_TIER', 'quick'),
                  choices=['quick', 'thorough'])
  ap.add_argument('--replay', default=None)
  ap.add_argument('--jobs', type=int,
                  default=int(os.environ.get('VERIF_JOBS', '16')))
  args = ap.parse_args(argv)
  pid = args.pid.upper()
  seed = int(os.environ.get('VERIF_SEED', '0') or 0)
  mod = _load(pid)
  t0 = time.time()

  os.makedirs(os.path.join(ROOT, '.work'), exist_ok=True)
  workdir = tempfile.mkdtemp(prefix='%s-' % pid, dir=os.path.join(ROOT, '.work'))
  try:
    return _main(mod, pid, args, seed, workdir, t0)
  finally:
    shutil.rmtree(workdir, ignore_errors=True)


def _main(mod, pid, args, seed, workdir, t0):
  known = load_known(pid)
  open_known = {e['key']: e for e in known if e.get('status') == 'open'}

  if args.replay:
    with open(args.replay) as f:
      rep = json.load(f)
    spec = {'mode': 'replay', 'witness': rep['witness'],
            'hashseed': rep.get('hashseed', 0)}
    results, err = _run_worker(pid, spec, workdir, 600, 0)
    if err:
      print('INCONCLUSIVE property=%s replay worker failed: %s' % (pid, err))
      return 2
    bad = [r for r in results if r.get('verdict') == 'violation']
    for r in results:
      print(json.dumps(r, indent=1)[:6000])
    if bad:
      print('VIOLATION property=%s replay=%s' % (pid, args.replay))
      return 1
    print('replay: no violation reproduced')
    return 0

  rdir0 = os.path.join(ROOT, 'replay', pid)
  if os.path.isdir(rdir0):
    for fn in os.listdir(rdir0):
      if fn.startswith('seed%d_' % seed):
        os.unlink(os.path.join(rdir0, fn))
  specs = mod.plan(args.tier, seed)
  # Known-finding witnesses are executed first, as slice 'kf'.
  kf_specs = []
  for key, e in sorted(open_known.items()):
    kf_specs.append({'mode': 'replay', 'witness': e['witness'], 'kf_key': key,
                     'hashseed': e.get('hashseed', 0)})
  # Witnesses of findings that were repaired ('fixed') are ordinary cases: if
  # one fails again it is reported as a violation like any other.
  for e in known:
    if e.get('status') == 'fixed' and e.get('witness'):
      specs.append({'mode': 'replay', 'witness': e['witness'], 'hashseed': e.get('hashseed', 0),
                    'regress_key': e['key']})
  all_specs = kf_specs + specs
  timeout = getattr(mod, 'SLICE_TIMEOUT', {}).get(args.tier, 1800)

  results = []
  errors = []
  kf_seen = {}
  with concurrent.futures.ThreadPoolExecutor(max_workers=args.jobs) as ex:
    futs = {}
    for i, spec in enumerate(all_specs):
      futs[ex.submit(_run_worker, pid, spec, workdir, timeout, i)] = spec
    for fut in concurrent.futures.as_completed(futs):
      spec = futs[fut]
      res, err = fut.result()
      if spec.get('kf_key'):
        key = spec['kf_key']
        kf_seen[key] = any(
            r.get('verdict') == 'violation' and r.get('mechanism') == key
            for r in res)
        if err:
          errors.append('known-finding witness %s: %s' % (key, err))
        continue
      if err:
        errors.append(err)
      results.extend(res)

  # ---- verdicts
  counters = collections.Counter()
  sigs = set()
  samples = []
  violations = []
  known_hits = collections.Counter()
  judged = 0
  inconclusive_cases = 0
  for r in results:
    for k, v in (r.get('counters') or {}).items():
      counters[k] += v
    v = r.get('verdict')
    if v == 'ok':
      judged += 1
    elif v == 'violation':
      judged += 1
      mech = r.get('mechanism')
      if mech and mech in open_known:
        known_hits[mech] += 1
      else:
        violations.append(r)
    elif v == 'inconclusive':
      inconclusive_cases += 1
    if r.get('nontrivial') and r.get('sig') is not None and v in ('ok', 'violation'):
      sigs.add(r['sig'])
    if r.get('sample') is not None and len(samples) < 4 and v == 'ok':
      samples.append(r['sample'])

  for key in sorted(open_known):
    if kf_seen.get(key) or known_hits.get(key):
      print('KNOWN-FINDING: property=%s %s — %s' % (
          pid, key, open_known[key].get('what', '')))

  wall = time.time() - t0
  cov = {
      'evaluations': len(results),
      'distinct_nontrivial': len(sigs),
      'rule': getattr(mod, 'RULE', ''),
      'samples': samples,
      'judged': judged,
      'inconclusive_cases': inconclusive_cases,
      'worker_errors': errors[:5],
      'known_finding_witness_reproduced': {k: bool(v) for k, v in kf_seen.items()},
      'known_finding_hits_in_stream': dict(known_hits),
  }
  for k, v in sorted(counters.items()):
    cov[k] = v
  if hasattr(mod, 'finalize'):
    mod.finalize(cov, results, args.tier)
  ev = {
      'property_id': pid,
      'tier': args.tier,
      'seed': seed,
      'level': getattr(mod, 'LEVEL', 'exploration'),
      'coverage': cov,
      'assumptions': getattr(mod, 'ASSUMPTIONS', []),
      'wall_s': round(wall, 2),
      'violations': len(violations),
  }
  os.makedirs(os.path.join(ROOT, 'evidence'), exist_ok=True)
  with open(os.path.join(ROOT, 'evidence', pid + '.json'), 'w') as f:
    json.dump(ev, f, indent=1, sort_keys=True, default=str)

  print('%s tier=%s seed=%d cases=%d judged=%d distinct=%d inconclusive=%d '
        'violations=%d known_hits=%d wall=%.1fs' % (
            pid, args.tier, seed, len(results), judged, len(sigs),
            inconclusive_cases, len(violations), sum(known_hits.values()), wall))
  brief = {k: v for k, v in counters.items()}
  print('counters: ' + json.dumps(brief, sort_keys=True))

  if violations:
    rdir = os.path.join(ROOT, 'replay', pid)
    os.makedirs(rdir, exist_ok=True)
    seen = set()
    for n, r in enumerate(violations[:20]):
      path = os.path.join(rdir, 'seed%d_%s.json' % (seed, str(r.get('case', n)).replace('/', '_')))
      with open(path, 'w') as f:
        json.dump({'property': pid, 'case': r.get('case'), 'detail': r.get('detail'),
                   'mechanism': r.get('mechanism'), 'witness': r.get('witness'),
                   'hashseed': r.get('hashseed', 0)}, f, indent=1, default=str)
      if path not in seen:
        seen.add(path)
        print('VIOLATION property=%s replay=%s' % (pid, os.path.relpath(path, ROOT)))
        d = r.get('detail')
        if d:
          print('  detail: ' + str(d)[:1500])
    return 1

  need = getattr(mod, 'MIN_JUDGED', {}).get(args.tier, 1)
  if judged < need or len(sigs) < 2:
    print('INCONCLUSIVE property=%s judged=%d (minimum %d) distinct=%d errors=%s' % (
        pid, judged, need, len(sigs), errors[:2]))
    return 2
  if hasattr(mod, 'conclusive'):
    why = mod.conclusive(cov, args.tier)
    if why:
      print('INCONCLUSIVE property=%s %s' % (pid, why))
      return 2
  return 0


if __name__ == '__main__':
  sys.exit(main())
