"""Instrumented twins of subject programs (DESIGN.md 2.3).

`number(tree)` gives every AST node of the tree that is handed to the analyses
an index `_vf_k`; `make_twin(tree)` deep-copies that tree (indices travel with
the copy) and inserts probe calls, so probe events and analysis annotations
share node indices. The probes are pure and return their operand.

Runtime events (one global ordered list per Recorder):
  ('enter', inv, fid, parent_inv)        function invocation started
  ('exit', inv, how)                     how in {'ret', 'exc'}
  ('node', inv, k)                       CFG node k is about to execute
  ('R', owner_inv, name, rid, did, inv)  read at Name node rid saw the value written at binding did
  ('W', owner_inv, name, did, inv)       binding occurrence did executed
  ('D', owner_inv, name, inv)            del name
  ('E', inv, sid, bound_names)           entry of compound statement sid
"""
import ast
import copy
import symtable

PFX = '_vf_'


def number(tree):
  nodes = []
  for n in ast.walk(tree):
    n._vf_k = len(nodes)
    nodes.append(n)
  return nodes


class Env(object):
  __slots__ = ('inv', 'fid', 'locals', 'parent', 'writers', 'alive')

  def __init__(self, inv, fid, locals_, parent):
    self.inv = inv
    self.fid = fid
    self.locals = locals_
    self.parent = parent
    self.writers = {}
    self.alive = True


class Recorder(object):
  """Runtime side of the probes."""

  def __init__(self):
    self.events = []
    self.ninv = 0
    self.max_events = 400000

  def namespace(self):
    return {PFX + 'enter': self.enter, PFX + 'exit': self.exit, PFX + 'p': self.p, PFX + 'v': self.v,
            PFX + 'it': self.it, PFX + 'r': self.r, PFX + 'w': self.w, PFX + 'd': self.d, PFX + 'e': self.e}

  def _add(self, ev):
    if len(self.events) < self.max_events:
      self.events.append(ev)

  def enter(self, fid, parent, locals_):
    self.ninv += 1
    env = Env(self.ninv, fid, frozenset(locals_), parent)
    self._add(('enter', env.inv, fid, parent.inv if parent is not None else None))
    return env

  def exit(self, env, how):
    env.alive = False
    self._add(('exit', env.inv, how))

  def p(self, env, k):
    self._add(('node', env.inv, k))

  def v(self, env, k, value):
    self._add(('node', env.inv, k))
    return value

  def it(self, env, k, iterable):
    itr = iter(iterable)
    while True:
      self._add(('node', env.inv, k))
      try:
        val = next(itr)
      except StopIteration:
        return
      yield val

  def _owner(self, env, name):
    e = env
    while e is not None:
      if name in e.locals:
        return e
      e = e.parent
    return None

  def r(self, env, rid, name, value):
    o = self._owner(env, name)
    if o is not None:
      self._add(('R', o.inv, name, rid, o.writers.get(name), env.inv))
    return value

  def w(self, env, did, name):
    o = self._owner(env, name)
    if o is not None:
      o.writers[name] = did
      self._add(('W', o.inv, name, did, env.inv))

  def d(self, env, name, k=None):
    o = self._owner(env, name)
    if o is not None:
      o.writers.pop(name, None)
      self._add(('D', o.inv, name, env.inv, k))

  def e(self, env, sid, loc):
    self._add(('E', env.inv, sid, frozenset(k for k in loc if k in env.locals)))


def _call(fn, *args):
  return ast.Call(func=ast.Name(id=PFX + fn, ctx=ast.Load()), args=list(args), keywords=[])


def _const(v):
  return ast.Constant(value=v)


def _stmt(expr):
  return ast.Expr(value=expr)


def function_tables(src):
  """symtable function scopes keyed by (name, lineno)."""
  out = {}

  def walk(t):
    for ch in t.get_children():
      if ch.get_type() == 'function':
        out[(ch.get_name(), ch.get_lineno())] = ch
      walk(ch)

  walk(symtable.symtable(src, '<twin>', 'exec'))
  return out


class Twin(ast.NodeTransformer):

  def __init__(self, tables):
    self.tables = tables
    self.fstack = []        # (fid, envname, locals set, globals set)
    self.bound = []         # names bound by enclosing lambdas / comprehensions

  # ---- helpers
  def envname(self):
    return PFX + 'env_%d' % self.fstack[-1][0]

  def env(self):
    return ast.Name(id=self.envname(), ctx=ast.Load())

  def tracked(self, name):
    """Is `name` a variable of some enclosing function (not global/builtin, not lambda-local)?"""
    for b in self.bound:
      if name in b:
        return False
    for fid, en, locs, globs in reversed(self.fstack):
      if name in globs:
        return False
      if name in locs:
        return True
    return False

  def writes(self, target):
    out = []
    for n in ast.walk(target):
      if isinstance(n, ast.Name) and isinstance(n.ctx, ast.Store) and self.tracked(n.id):
        out.append(_stmt(_call('w', self.env(), _const(n._vf_k), _const(n.id))))
    return out

  def probe(self, node):
    return _stmt(_call('p', self.env(), _const(node._vf_k)))

  def entry(self, node):
    return _stmt(_call('e', self.env(), _const(node._vf_k), ast.Call(func=ast.Name(id='locals', ctx=ast.Load()), args=[], keywords=[])))

  def block(self, stmts):
    out = []
    for s in stmts:
      r = self.visit(s)
      if isinstance(r, list):
        out.extend(r)
      elif r is not None:
        out.append(r)
    return out or [ast.Pass()]

  # ---- expressions
  def visit_Name(self, node):
    if not self.fstack:
      return node
    if isinstance(node.ctx, ast.Load) and self.tracked(node.id):
      return _call('r', self.env(), _const(node._vf_k), _const(node.id), node)
    return node

  def visit_Lambda(self, node):
    params = {a.arg for a in ast.walk(node.args) if isinstance(a, ast.arg)}
    node.args = self.generic_visit(node.args)   # defaults are evaluated outside
    self.bound.append(params)
    node.body = self.visit(node.body)
    self.bound.pop()
    return node

  def _comp(self, node):
    names = set()
    for g in node.generators:
      for n in ast.walk(g.target):
        if isinstance(n, ast.Name):
          names.add(n.id)
    # the first iterable is evaluated in the enclosing scope
    first = node.generators[0]
    first.iter = self.visit(first.iter)
    self.bound.append(names)
    for i, g in enumerate(node.generators):
      if i > 0:
        g.iter = self.visit(g.iter)
      g.ifs = [self.visit(c) for c in g.ifs]
    if isinstance(node, ast.DictComp):
      node.key = self.visit(node.key)
      node.value = self.visit(node.value)
    else:
      node.elt = self.visit(node.elt)
    self.bound.pop()
    return node

  visit_ListComp = _comp
  visit_SetComp = _comp
  visit_DictComp = _comp
  visit_GeneratorExp = _comp

  # ---- statements
  def _simple(self, node, bind_from=None):
    if not self.fstack:
      return self.generic_visit(node)
    p = self.probe(node)
    node = self.generic_visit(node)
    out = [p, node]
    if bind_from is not None:
      for t in bind_from:
        out.extend(self.writes(t))
    return out

  def visit_Assign(self, node):
    return self._simple(node, node.targets)

  def visit_AugAssign(self, node):
    return self._simple(node, [node.target])

  def visit_AnnAssign(self, node):
    return self._simple(node, [node.target] if node.value is not None else [])

  def visit_Expr(self, node):
    return self._simple(node)

  def visit_Pass(self, node):
    return self._simple(node)

  def visit_Assert(self, node):
    return self._simple(node)

  def visit_Return(self, node):
    return self._simple(node)

  def visit_Raise(self, node):
    return self._simple(node)

  def visit_Break(self, node):
    return self._simple(node)

  def visit_Continue(self, node):
    return self._simple(node)

  def visit_Global(self, node):
    return self._simple(node)

  def visit_Nonlocal(self, node):
    return self._simple(node)

  def visit_Import(self, node):
    if not self.fstack:
      return node
    out = [self.probe(node), node]
    for a in node.names:
      nm = (a.asname or a.name).split('.')[0]
      if self.tracked(nm):
        out.append(_stmt(_call('w', self.env(), _const(a._vf_k), _const(nm))))
    return out

  visit_ImportFrom = visit_Import

  def visit_Delete(self, node):
    if not self.fstack:
      return node
    out = [self.probe(node)]
    names = [t.id for t in node.targets if isinstance(t, ast.Name) and self.tracked(t.id)]
    node = self.generic_visit(node)
    out.append(node)
    for nm in names:
      out.append(_stmt(_call('d', self.env(), _const(nm), _const(node._vf_k))))
    return out

  def visit_If(self, node):
    if not self.fstack:
      return self.generic_visit(node)
    pre = self.entry(node)
    node.test = _call('v', self.env(), _const(node.test._vf_k), self.visit(node.test))
    node.body = self.block(node.body)
    node.orelse = self.block(node.orelse) if node.orelse else []
    return [pre, node]

  def visit_While(self, node):
    if not self.fstack:
      return self.generic_visit(node)
    pre = self.entry(node)
    node.test = _call('v', self.env(), _const(node.test._vf_k), self.visit(node.test))
    node.body = self.block(node.body)
    node.orelse = self.block(node.orelse) if node.orelse else []
    return [pre, node]

  def visit_For(self, node):
    if not self.fstack:
      return self.generic_visit(node)
    pre = self.entry(node)
    k = node.iter._vf_k
    node.iter = _call('it', self.env(), _const(k), self.visit(node.iter))
    node.body = self.writes(node.target) + self.block(node.body)
    node.orelse = self.block(node.orelse) if node.orelse else []
    return [pre, node]

  def visit_With(self, node):
    if not self.fstack:
      return self.generic_visit(node)
    w = []
    for it in node.items:
      it.context_expr = _call('v', self.env(), _const(it._vf_k), self.visit(it.context_expr))
      if it.optional_vars is not None:
        w.extend(self.writes(it.optional_vars))
    node.body = w + self.block(node.body)
    return [node]

  def visit_Try(self, node):
    if not self.fstack:
      return self.generic_visit(node)
    pre = self.entry(node)
    node.body = self.block(node.body)
    for h in node.handlers:
      if h.type is not None:
        h.type = self.visit(h.type)
      w = []
      if h.name and self.tracked(h.name):
        w.append(_stmt(_call('w', self.env(), _const(h._vf_k), _const(h.name))))
      h.body = w + self.block(h.body)
    node.orelse = self.block(node.orelse) if node.orelse else []
    node.finalbody = self.block(node.finalbody) if node.finalbody else []
    return [pre, node]

  def visit_ClassDef(self, node):
    if not self.fstack:
      return self.generic_visit(node)
    out = [self.probe(node), node]
    if self.tracked(node.name):
      out.append(_stmt(_call('w', self.env(), _const(node._vf_k), _const(node.name))))
    return out

  def visit_FunctionDef(self, node):
    tab = self.tables.get((node.name, node.lineno))
    outer = []
    if self.fstack:
      outer.append(self.probe(node))
      node.decorator_list = [self.visit(d) for d in node.decorator_list]
      node.args.defaults = [self.visit(d) for d in node.args.defaults]
      node.args.kw_defaults = [self.visit(d) if d is not None else None for d in node.args.kw_defaults]
    if tab is None:
      return outer + [node] if outer else node
    locs = set(tab.get_locals()) - set(tab.get_globals()) - set(tab.get_nonlocals())
    globs = set()
    for s in tab.get_symbols():
      if s.is_declared_global() or (s.is_global() and not s.is_local()):
        globs.add(s.get_name())
    parent_env = self.env() if self.fstack else _const(None)
    fid = node._vf_k
    self.fstack.append((fid, PFX + 'env_%d' % fid, locs, globs))
    saved_bound = self.bound
    self.bound = []
    env = self.env()
    body = [self.probe(node.args)]
    for a in ast.walk(node.args):
      if isinstance(a, ast.arg):
        body.append(_stmt(_call('w', env, _const(a._vf_k), _const(a.arg))))
    body += self.block(node.body)
    flag = PFX + 'x_%d' % fid
    wrapped = ast.Try(
        body=body,
        handlers=[ast.ExceptHandler(type=ast.Name(id='BaseException', ctx=ast.Load()), name=None, body=[
            ast.Assign(targets=[ast.Name(id=flag, ctx=ast.Store())], value=_const('exc')), ast.Raise(exc=None, cause=None)])],
        orelse=[],
        finalbody=[_stmt(_call('exit', env, ast.Name(id=flag, ctx=ast.Load())))])
    decls = [s for s in node.body if isinstance(s, (ast.Global, ast.Nonlocal))]
    node.body = [
        ast.Assign(targets=[ast.Name(id=self.envname(), ctx=ast.Store())],
                   value=_call('enter', _const(fid), parent_env,
                               ast.Tuple(elts=[_const(x) for x in sorted(locs)], ctx=ast.Load()))),
        ast.Assign(targets=[ast.Name(id=flag, ctx=ast.Store())], value=_const('ret')),
        wrapped,
    ]
    self.bound = saved_bound
    self.fstack.pop()
    if outer:
      post = []
      if self.tracked(node.name):
        post.append(_stmt(_call('w', self.env(), _const(node._vf_k), _const(node.name))))
      return outer + [node] + post
    return node


def make_twin(tree, src):
  """Returns the instrumented copy of `tree` (which must have been numbered)."""
  t2 = copy.deepcopy(tree)
  tw = Twin(function_tables(src))
  t2 = tw.visit(t2)
  ast.fix_missing_locations(t2)
  return t2


def parents_map(tree):
  par = {}
  for n in ast.walk(tree):
    for ch in ast.iter_child_nodes(n):
      par[ch._vf_k] = n._vf_k
  return par
