"""Subject programs for the analysis properties: one parsed tree handed to the
real analyses, its instrumented twin executed by CPython, and recorders for the
Analyzer instances the analyses create (DESIGN.md 2.3 / 2.5)."""
import ast
import signal

from vf.instr import twin


class Timeout(BaseException):
  pass


def _alarm(signum, frame):
  raise Timeout()


class AnalyzerRecorder(object):
  """Replaces the Analyzer classes by subclasses that register their instances."""

  def __init__(self):
    self.rd = []
    self.live = []
    self.fndefs = []
    self._saved = []

  def __enter__(self):
    from malt.pyct.static_analysis import reaching_definitions, liveness, reaching_fndefs
    rec = self

    def sub(module, bucket):
      # The classes call super(Analyzer, self) through their module global, so
      # the class object must stay in place: only its __init__ is wrapped.
      cls = module.Analyzer
      real_init = cls.__init__

      def __init__(obj, *a, **k):
        real_init(obj, *a, **k)
        bucket.append(obj)

      rec._saved.append((cls, real_init))
      cls.__init__ = __init__

    sub(reaching_definitions, self.rd)
    sub(liveness, self.live)
    sub(reaching_fndefs, self.fndefs)
    return self

  def __exit__(self, *a):
    for cls, real_init in self._saved:
      cls.__init__ = real_init
    self._saved = []


class Subject(object):

  def __init__(self, src):
    self.src = src
    self.tree = ast.parse(src)
    self.nodes = twin.number(self.tree)
    self.par = twin.parents_map(self.tree)
    self.twin_tree = twin.make_twin(self.tree, src)
    self.twin_code = compile(self.twin_tree, '<twin>', 'exec')
    self.graphs = None
    self.recorders = None
    self.functions = [n for n in self.nodes if isinstance(n, ast.FunctionDef)]

  def top_function(self, name):
    for n in self.tree.body:
      if isinstance(n, ast.FunctionDef) and n.name == name:
        return n
    # function under test defined inside a factory
    for n in self.functions:
      if n.name == name:
        return n
    return None

  def analyse(self, names, upto='liveness'):
    """Runs the real analyses (same sequence as control_flow.transform) on the
    named top-level functions of the subject tree. Returns {name: graphs}."""
    from malt.pyct import cfg, qual_names, transformer
    from malt.pyct.static_analysis import activity, reaching_definitions, reaching_fndefs, liveness
    info = transformer.EntityInfo(name='subject', source_code=self.src, source_file=None, future_features=(),
                                  namespace={})
    ctx = transformer.Context(info, None, None)
    self.graphs = {}
    self.recorders = AnalyzerRecorder()
    with self.recorders:
      for nm in names:
        node = self.top_function(nm)
        if node is None:
          continue
        graphs = cfg.build(node)
        self.graphs.update(graphs)
        if upto == 'cfg':
          continue
        node = qual_names.resolve(node)
        node = activity.resolve(node, ctx, None)
        if upto == 'activity':
          continue
        node = reaching_definitions.resolve(node, ctx, graphs)
        if upto == 'reaching_definitions':
          continue
        node = reaching_fndefs.resolve(node, ctx, graphs)
        node = liveness.resolve(node, ctx, graphs)
    return self.graphs

  def run(self, fname, args_src, timeout=6):
    """Executes the twin. Returns (outcome dict, events list)."""
    rec = twin.Recorder()
    ns = {}
    ns.update(rec.namespace())
    exec(self.twin_code, ns)  # pylint:disable=exec-used
    args = eval(args_src, ns)  # pylint:disable=eval-used
    old = signal.signal(signal.SIGALRM, _alarm)
    signal.setitimer(signal.ITIMER_REAL, timeout, 0.5)
    out = {}
    try:
      try:
        rv = ns[fname](*args)
        out = {'kind': 'ret', 'value': repr(rv)[:200]}
      except Timeout:
        out = {'kind': 'timeout'}
      except Exception as e:  # pylint:disable=broad-except
        out = {'kind': 'exc', 'value': type(e).__name__}
      except BaseException as e:  # pylint:disable=broad-except
        if type(e).__name__ == 'B1':
          out = {'kind': 'exc', 'value': 'B1'}
        elif type(e).__name__ != '_Overflow':
          raise
        else:
          out = {'kind': 'timeout'}
    finally:
      signal.setitimer(signal.ITIMER_REAL, 0, 0)
      signal.signal(signal.SIGALRM, old)
    out['log'] = [list(x) for x in ns.get('LOG', [])]
    return out, rec.events

  def run_plain(self, fname, args_src, timeout=6):
    ns = {}
    exec(compile(self.src, '<subject>', 'exec'), ns)  # pylint:disable=exec-used
    args = eval(args_src, ns)  # pylint:disable=eval-used
    old = signal.signal(signal.SIGALRM, _alarm)
    signal.setitimer(signal.ITIMER_REAL, timeout, 0.5)
    try:
      try:
        rv = ns[fname](*args)
        out = {'kind': 'ret', 'value': repr(rv)[:200]}
      except Timeout:
        out = {'kind': 'timeout'}
      except Exception as e:  # pylint:disable=broad-except
        out = {'kind': 'exc', 'value': type(e).__name__}
      except BaseException as e:  # pylint:disable=broad-except
        if type(e).__name__ == 'B1':
          out = {'kind': 'exc', 'value': 'B1'}
        elif type(e).__name__ != '_Overflow':
          raise
        else:
          out = {'kind': 'timeout'}
    finally:
      signal.setitimer(signal.ITIMER_REAL, 0, 0)
      signal.signal(signal.SIGALRM, old)
    out['log'] = [list(x) for x in ns.get('LOG', [])]
    return out

  def invocations(self, events):
    """Splits the global event list into per-invocation node traces.
    Returns {inv: dict(fid, nodes=[k...], how)}."""
    inv = {}
    for ev in events:
      if ev[0] == 'enter':
        inv[ev[1]] = {'fid': ev[2], 'nodes': [], 'how': None}
      elif ev[0] == 'node' and ev[1] in inv:
        inv[ev[1]]['nodes'].append(ev[2])
      elif ev[0] == 'exit' and ev[1] in inv:
        inv[ev[1]]['how'] = ev[2]
    return inv
