"""Type-probe twin for C19: every expression, binding and captured variable of
the subject is wrapped in a pure probe that records the abstract run-time type
of the value under the index `_vf_k` of the AST node the analysis annotated.

The abstract type of a value mirrors the vocabulary of the inference itself:
`type(v)`, except that a tuple is the tuple of the abstract types of its
elements (StmtInferrer.visit_Tuple builds the same product).

Subject programs are restricted to the statement forms of the C19 quantifier
(assignments, unpacking, aug-assign, if/while/for, nested defs with nonlocal,
calls, return); anything else makes `make` raise ValueError.
"""
import ast
import copy

from vf.instr import twin

PFX = '_vt_'


def abstract(v):
  if type(v) is tuple:
    return tuple(abstract(e) for e in v)
  return type(v)


class Env(object):
  __slots__ = ('inv', 'fid', 'locals', 'parent', 'writers')

  def __init__(self, inv, fid, locals_, parent):
    self.inv = inv
    self.fid = fid
    self.locals = locals_
    self.parent = parent
    self.writers = {}


class Recorder(object):

  def __init__(self):
    self.obs = {}          # k -> {abstract type: [count, writer did or None, writer fid, owner fid]}
    self.closure = {}      # (k_def, name) -> {abstract type: count}
    self.ninv = 0
    self.nevents = 0
    self.calls = {}        # k_def -> number of invocations

  def namespace(self):
    return {PFX + 'enter': self.enter, PFX + 'ty': self.ty, PFX + 'r': self.r, PFX + 'w': self.w,
            PFX + 'wf': self.wf, PFX + 'cl': self.cl}

  def _note(self, k, t, did=None, wfid=None, ofid=None):
    self.nevents += 1
    d = self.obs.setdefault(k, {})
    if t in d:
      d[t][0] += 1
    else:
      d[t] = [1, did, wfid, ofid]

  def enter(self, fid, parent, locals_):
    self.ninv += 1
    self.calls[fid] = self.calls.get(fid, 0) + 1
    return Env(self.ninv, fid, frozenset(locals_), parent)

  def _owner(self, env, name):
    e = env
    while e is not None:
      if name in e.locals:
        return e
      e = e.parent
    return None

  def ty(self, k, value):
    self._note(k, abstract(value))
    return value

  def r(self, env, k, name, value):
    o = self._owner(env, name)
    did, wfid = (o.writers.get(name, (None, None)) if o is not None else (None, None))
    self._note(k, abstract(value), did, wfid, o.fid if o is not None else None)
    return value

  def w(self, env, k, name, value):
    o = self._owner(env, name)
    if o is not None:
      o.writers[name] = (k, env.fid)
    self._note(k, abstract(value))

  def wf(self, env, k, name):
    o = self._owner(env, name)
    if o is not None:
      o.writers[name] = (k, env.fid)

  def cl(self, env, kdef, name, value):
    self.nevents += 1
    d = self.closure.setdefault((kdef, name), {})
    t = abstract(value)
    if t in d:
      d[t]['n'] += 1
    else:
      o = self._owner(env, name)
      did, wfid = (o.writers.get(name, (None, None)) if o is not None else (None, None))
      d[t] = {'n': 1, 'writer': (did, wfid, o.fid if o is not None else None)}


def _call(fn, *args):
  return ast.Call(func=ast.Name(id=PFX + fn, ctx=ast.Load()), args=list(args), keywords=[])


def _const(v):
  return ast.Constant(value=v)


def _stmt(e):
  return ast.Expr(value=e)


ALLOWED_STMTS = (ast.Assign, ast.AugAssign, ast.Expr, ast.Return, ast.If, ast.While, ast.For, ast.FunctionDef,
                 ast.Nonlocal, ast.Pass, ast.Break, ast.Continue)
PROBED_EXPRS = (ast.BinOp, ast.UnaryOp, ast.Compare, ast.Call, ast.Subscript, ast.Tuple, ast.List, ast.Constant,
                ast.BoolOp, ast.IfExp, ast.Attribute)


class TyTwin(ast.NodeTransformer):

  def __init__(self, tables):
    self.tables = tables
    self.fstack = []     # (fid, locals, globals)

  def envname(self):
    return PFX + 'env_%d' % self.fstack[-1][0]

  def env(self):
    return ast.Name(id=self.envname(), ctx=ast.Load())

  def tracked(self, name):
    for fid, locs, globs in reversed(self.fstack):
      if name in globs:
        return False
      if name in locs:
        return True
    return False

  # expressions
  def visit_Name(self, node):
    if not self.fstack or not isinstance(node.ctx, ast.Load):
      return node
    if self.tracked(node.id):
      return _call('r', self.env(), _const(node._vf_k), _const(node.id), node)
    return _call('ty', _const(node._vf_k), node)

  def generic_visit(self, node):
    node = super(TyTwin, self).generic_visit(node)
    if (self.fstack and isinstance(node, PROBED_EXPRS) and hasattr(node, '_vf_k')
        and isinstance(getattr(node, 'ctx', None) or ast.Load(), ast.Load)):
      return _call('ty', _const(node._vf_k), node)
    return node

  def store_probes(self, target):
    out = []
    for n in ast.walk(target):
      if isinstance(n, ast.Name) and isinstance(n.ctx, ast.Store) and self.tracked(n.id):
        out.append(_stmt(_call('w', self.env(), _const(n._vf_k), _const(n.id), ast.Name(id=n.id, ctx=ast.Load()))))
    return out

  def block(self, stmts):
    out = []
    for s in stmts:
      if not isinstance(s, ALLOWED_STMTS):
        raise ValueError('statement form outside the C19 class: %s' % type(s).__name__)
      r = self.visit(s)
      out.extend(r if isinstance(r, list) else [r])
    return out or [ast.Pass()]

  def visit_Assign(self, node):
    node.value = self.visit(node.value)
    out = [node]
    for t in node.targets:
      out.extend(self.store_probes(t))
    return out

  def visit_AugAssign(self, node):
    node.value = self.visit(node.value)
    return [node] + self.store_probes(node.target)

  def visit_If(self, node):
    node.test = self.visit(node.test)
    node.body = self.block(node.body)
    node.orelse = self.block(node.orelse) if node.orelse else []
    return node

  visit_While = visit_If

  def visit_For(self, node):
    node.iter = self.visit(node.iter)
    node.body = self.store_probes(node.target) + self.block(node.body)
    node.orelse = self.block(node.orelse) if node.orelse else []
    return node

  def visit_FunctionDef(self, node):
    tab = self.tables.get((node.name, node.lineno))
    if tab is None:
      raise ValueError('no symbol table for %s' % node.name)
    if node.decorator_list:
      raise ValueError('decorators are outside the C19 class')
    nested = bool(self.fstack)
    locs = set(tab.get_locals()) - set(tab.get_globals()) - set(tab.get_nonlocals())
    globs = {s.get_name() for s in tab.get_symbols() if s.is_declared_global() or (s.is_global() and not s.is_local())}
    frees = sorted(tab.get_frees())
    parent_env = self.env() if nested else _const(None)
    post = []
    if nested and self.tracked(node.name):
      post.append(_stmt(_call('wf', self.env(), _const(node._vf_k), _const(node.name))))
    fid = node._vf_k
    self.fstack.append((fid, locs, globs))
    env = self.env()
    decls = [s for s in node.body if isinstance(s, ast.Nonlocal)]
    rest = [s for s in node.body if not isinstance(s, ast.Nonlocal)]
    body = list(decls)
    body.append(ast.Assign(targets=[ast.Name(id=self.envname(), ctx=ast.Store())],
                           value=_call('enter', _const(fid), parent_env,
                                       ast.Tuple(elts=[_const(x) for x in sorted(locs)], ctx=ast.Load()))))
    for nm in frees:
      body.append(ast.Try(
          body=[_stmt(_call('cl', env, _const(fid), _const(nm), ast.Name(id=nm, ctx=ast.Load())))],
          handlers=[ast.ExceptHandler(type=ast.Name(id='NameError', ctx=ast.Load()), name=None, body=[ast.Pass()])],
          orelse=[], finalbody=[]))
    for a in ast.walk(node.args):
      if isinstance(a, ast.arg):
        body.append(_stmt(_call('w', env, _const(a._vf_k), _const(a.arg), ast.Name(id=a.arg, ctx=ast.Load()))))
    body += self.block(rest)
    node.body = body
    self.fstack.pop()
    return [node] + post


def make(tree, src):
  t2 = copy.deepcopy(tree)
  tw = TyTwin(twin.function_tables(src))
  body = []
  for s in t2.body:
    r = tw.visit(s) if isinstance(s, ast.FunctionDef) else s
    body.extend(r if isinstance(r, list) else [r])
  t2.body = body
  ast.fix_missing_locations(t2)
  return t2
