"""Shared 'generate -> import twice -> convert -> run both -> compare' machinery."""
import logging
import random
import time
import traceback

from vf import diff
from vf.gen import defassign
from vf.gen import grammar

MODES = ['to_graph', 'to_graph', 'to_graph_nonrec', 'convert', 'convert_nonrec', 'via_call']
FEATURE_SETS = [[], [], ['BUILTIN_FUNCTIONS'], ['EQUALITY_OPERATORS'],
                ['BUILTIN_FUNCTIONS', 'EQUALITY_OPERATORS']]

CALLER_SRC = '''
def CALLER(a, b, c, xs, o, d):
    return f(a, b, c, xs, o, d)
'''


class FallbackCatcher(logging.Handler):
  """Collects malt's 'could not transform ... will run it as-is' warnings: a
  conversion failure masked by the call wrapper's fallback."""

  def __init__(self):
    logging.Handler.__init__(self, level=logging.WARNING)
    self.records = []

  def emit(self, record):
    try:
      msg = record.getMessage()
    except Exception:  # pylint:disable=broad-except
      msg = str(record.msg)
    if 'could not transform' in msg:
      self.records.append(msg[:500])

  def __enter__(self):
    logging.getLogger().addHandler(self)
    return self

  def __exit__(self, *a):
    logging.getLogger().removeHandler(self)


def features(names):
  from malt.core import converter
  if not names:
    return None
  return tuple(converter.Feature[n] for n in names)


def convert(module, mode, feats, fname='f'):
  """Returns (callable, unwrap_convert_flag)."""
  import malt
  from malt.impl import api
  f = getattr(module, fname)
  fs = features(feats)
  if mode == 'to_graph':
    return malt.to_graph(f, recursive=True, experimental_optional_features=fs), False
  if mode == 'to_graph_nonrec':
    return malt.to_graph(f, recursive=False, experimental_optional_features=fs), False
  if mode == 'convert':
    return api.convert(recursive=True, optional_features=fs)(f), True
  if mode == 'convert_nonrec':
    return api.convert(recursive=False, optional_features=fs)(f), True
  if mode == 'via_call':
    return malt.to_graph(module.CALLER, recursive=True, experimental_optional_features=fs), False
  raise ValueError(mode)


def diff_case(src, inputs, mode, feats, fname='f', keep_modules=False):
  """Runs one differential case. Returns dict(verdict, detail, runs, ...)."""
  full = src + CALLER_SRC
  res = {'verdict': 'ok', 'detail': None, 'runs': 0, 'exc_runs': 0, 'log_events': 0,
         'conversion_error': False}
  try:
    mo = diff.load_instance(full, 'o')
    mc = diff.load_instance(full, 'c')
  except Exception:  # generator produced something unloadable: harness problem
    res['verdict'] = 'inconclusive'
    res['detail'] = 'module does not import: ' + traceback.format_exc()[-800:]
    return res
  try:
    try:
      g, unwrap = convert(mc, mode, feats, fname)
    except Exception as e:  # pylint:disable=broad-except
      res['verdict'] = 'violation'
      res['conversion_error'] = True
      res['detail'] = 'conversion failed: %s: %s' % (type(e).__name__, str(e)[:600])
      return res
    for a in inputs:
      o = diff.run(getattr(mo, fname), mo, a)
      with FallbackCatcher() as fb:
        c = diff.run(g, mc, a, unwrap_convert=unwrap)
      if fb.records:
        res['verdict'] = 'violation'
        res['conversion_error'] = True
        res['detail'] = 'conversion failed inside the call wrapper (fell back to unconverted): %s' % fb.records[0]
        res['input'] = a
        return res
      if o['kind'] in ('timeout', 'overflow'):
        res['ref_timeouts'] = res.get('ref_timeouts', 0) + 1
        continue
      if c['kind'] == 'timeout':
        res['watchdog_inconclusive'] = res.get('watchdog_inconclusive', 0) + 1
        continue
      res['runs'] += 1
      res['log_events'] += len(o['log'])
      if o['kind'] == 'exc':
        res['exc_runs'] += 1
      bad = diff.compare(o, c)
      if bad:
        res['verdict'] = 'violation'
        res['detail'] = 'input %s: %s' % (a, bad)
        res['input'] = a
        return res
    return res
  finally:
    if not keep_modules:
      diff.unload(mo)
      diff.unload(mc)


def reduce_source(src, still_fails, budget_s=45, keep_defassign=False):
  """Delta debugging by deleting a line together with its indented block, or
  replacing it by `pass`, while still_fails(candidate) holds."""
  pre = grammar.PREAMBLE
  if not src.startswith(pre):
    return src
  lines = src[len(pre):].split('\n')
  t0 = time.time()
  changed = True
  while changed and time.time() - t0 < budget_s:
    changed = False
    i = len(lines) - 1
    while i >= 0 and time.time() - t0 < budget_s:
      ln = lines[i]
      if not ln.strip() or ln.lstrip().startswith(('def f(', 'def make(', 'return f, getcv', 'f, getcv =')) \
          or (ln.lstrip().startswith('w') and ln.rstrip().endswith('+= 1')):
        i -= 1
        continue
      ind = len(ln) - len(ln.lstrip())
      j = i + 1
      while j < len(lines) and (not lines[j].strip() or len(lines[j]) - len(lines[j].lstrip()) > ind):
        j += 1
      for repl in ([], [' ' * ind + 'pass']):
        cand = lines[:i] + repl + lines[j:]
        if repl and lines[i:j] == repl:
          continue
        text = pre + '\n'.join(cand)
        try:
          compile(text, 'cand', 'exec')
        except SyntaxError:
          continue
        if keep_defassign and defassign.unbound_reads('\n'.join(cand), known_globals=PREAMBLE_GLOBALS):
          continue
        try:
          ok = still_fails(text)
        except Exception:  # pylint:disable=broad-except
          ok = False
        if ok:
          lines = cand
          changed = True
          break
      i -= 1
  return pre + '\n'.join(lines)


PREAMBLE_GLOBALS = frozenset(['functools', 'LOG', '_r', '_Overflow', 'T', 'CM', 'Obj', 'LI', 'E1', 'E2', 'E3', 'B1', 'Falsy', 'FZ', 'NL', 'H', 'H2', 'R',
                              'RAISER', 'P1', 'P2', 'G1', 'G2', 'zG3', 'PH', 'malt', 'getcv', 'make', 'f'])


def body_of(src):
  return src[len(grammar.PREAMBLE):] if src.startswith(grammar.PREAMBLE) else src
