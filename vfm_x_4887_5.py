import functools
LOG = []
def _r(v):
    if callable(v) and not isinstance(v, type):
        return '<callable>'
    try:
        return repr(v)
    except Exception as e:
        return '<unrepr %s>' % type(e).__name__
class _Overflow(BaseException):
    pass
def T(tag, v=None):
    if len(LOG) > 20000:
        raise _Overflow()
    LOG.append(('T', tag, _r(v)))
    return v
class CM(object):
    def __init__(self, tag):
        self.tag = tag
        self.n = 0
    def __enter__(self):
        LOG.append(('enter', self.tag))
        self.n += 1
        return self
    def __exit__(self, et, ev, tb):
        LOG.append(('exit', self.tag, ('NameError' if issubclass(et, NameError) else et.__name__) if et else None))
        return False
class Obj(object):
    def __init__(self, p=0, q=0):
        self.p = p
        self.q = q
    def __eq__(self, other):
        return isinstance(other, Obj) and self.__dict__ == other.__dict__
    def __ne__(self, other):
        return not self.__eq__(other)
    __hash__ = None
    def __repr__(self):
        return 'Obj(%s)' % ', '.join('%s=%r' % kv for kv in sorted(self.__dict__.items()))
    def meth(self, x):
        LOG.append(('meth', _r(x)))
        if x > self.p:
            self.q = self.q + 1
            return x - self.p
        return self.p - x
class Falsy(object):
    """An object whose truth value is False (an empty container), with ordinary methods."""
    def __init__(self):
        self.n = 0
    def __len__(self):
        return 0
    def bump(self, x, k=1):
        LOG.append(('bump', _r(x), _r(k)))
        self.n = self.n + 1
        if x > 2:
            return x - k
        return x + k
FZ = Falsy()
class LI(object):
    def __init__(self, tag, seq):
        self.tag = tag
        self.it = iter(list(seq))
    def __iter__(self):
        return self
    def __next__(self):
        try:
            v = next(self.it)
        except StopIteration:
            LOG.append(('next', self.tag, 'stop'))
            raise
        LOG.append(('next', self.tag, _r(v)))
        return v
class E1(Exception):
    pass
class E2(Exception):
    def __init__(self, a, b=0):
        Exception.__init__(self, a)
        self.b = b
class E3(E1):
    pass
class B1(BaseException):
    pass
def H(x):
    LOG.append(('H', _r(x)))
    r = 0
    for k in range(3):
        if k > x:
            break
        r += k
    return r + x
def H2(x, y=1):
    LOG.append(('H2', _r(x), _r(y)))
    if x > y:
        return x - y
    return y
def R(n):
    if n <= 0:
        return 0
    return n + R(n - 1)
def RAISER(x):
    LOG.append(('RAISER', _r(x)))
    if x % 2 == 0:
        raise E1('even')
    return x
P1 = functools.partial(H2, 3)
P2 = functools.partial(H2, y=2)
G1 = 1
G2 = 10
zG3 = 100      # a global whose name sorts after the local variables
NL = [0, 0, 0]  # a module-level list for negative-index stores
def PH(x):
    r = 0
    for k in range(3):
        if k > x:
            break
        r += k
    return r + x
def g0(a, b, c, xs, o, d):
    w6 = 0
    w11 = 0
    w13 = 0
    v0 = 0
    v1 = b
    v2 = c
    v3 = b - c
    v4 = b
    v5 = c
    v3 = (PH(1) * 3)
    for i1 in iter(xs):
        return v3
    def fn2(p3):
        w4 = 0
        w5 = 0
        w4 = 0
        while w4 < 4 and (0 - d['m']) < a != len(xs):
            w4 += 1
            w5 = 0
            while w5 < 4 and p3 > (o.p - (a if v1 >= v4 else v0)):
                w5 += 1
                if ((v1 % 5) - (c * 3)) < PH(v1):
                    m2 = a
                else:
                    continue
                m2 -= (max(0, 5) - b)
        return ((1 + -2) + (2 - d['k']))
    v2 = fn2((5 if 2 <= v0 else a))
    for v1 in xs:
        v0, v1 = v3, PH(5)
        v2 -= a
        v0 -= (0 * 3)
    w6 = 0
    while w6 < 2 and -1 >= d['k']:
        w6 += 1
        if (fn2(2) if b <= v3 != v2 else -2) > ((a - b) * -1):
            for i7 in xs:
                v2 += w6
                v3 = v0
            for i8 in xs:
                for i9, i10 in enumerate(xs):
                    v0 = b
                w11 = 0
def f(a, b, c, xs, o, d):
    v0 = 0
    v4 = a + b
    v5 = b
    v2 = 0
    if 'k' in d:
        if c <= ((v2 if v0 <= v4 else -2) and (v0 if a >= 1 else v5)):
            pass
        elif ((b == b and (d['k.m'] <= c and 0 <= d['m'])) and o.q >= (v4 - c)):
            if not (v2 < v2 < 5):
                pass
            else:
                v5 = ((d['k.m'] + v0) if 'zz' in d else (c - o.q))
                if -2 < g0(2, 3, v5, xs, o, d):
                    pass
def CALLER(a, b, c, xs, o, d):
    return f(a, b, c, xs, o, d)
